"""simkit — deterministic simulation with fault injection for aiudirog/Aiuti."""
