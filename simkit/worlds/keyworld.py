"""
keyworld — the key-equality clause of C14 as sequential programs on one virtual-time loop, plus the
signature table used by the concurrent part (cacheworld subclass in checks/c14.py).
"""

import asyncio
import json
import itertools

from .. import sched as S
from .. import env
from ..loop import SimLoop, install_policy, restore_policy

POS_VALUES = [1, 1.0, True, 'a', (1,), (), (1, 'a')]      # tuples that equal other calls' whole positional tuples
KW_NAMES = ['x', 'y', 'z']
KW_VALUES = [1, 'a', (1,)]


def positional(maxlen, values=POS_VALUES):
    out = []
    for n in range(maxlen + 1):
        out.extend(itertools.product(range(len(values)), repeat=n))
    return out


def keyword(maxnames, names=KW_NAMES, nvalues=len(KW_VALUES)):
    """Every insertion order of every choice of <= maxnames names, with every value assignment."""
    out = []
    for n in range(maxnames + 1):
        for perm in itertools.permutations(range(len(names)), n):
            for vals in itertools.product(range(nvalues), repeat=n):
                out.append(tuple(zip(perm, vals)))
    return out


def signatures(maxpos, maxkw, nvalues=2, names=2):
    P = positional(maxpos)
    K = keyword(maxkw, KW_NAMES[:names], nvalues)
    return [(p, k) for p in P for k in K]


def realise(sig):
    """sig (indices) -> fresh (args, kwargs) objects; equal-but-distinct objects on every call."""
    p, k = sig
    args = tuple(_fresh(POS_VALUES[i]) for i in p)
    kwargs = {}
    for ni, vi in k:
        kwargs[KW_NAMES[ni]] = _fresh(KW_VALUES[vi])
    return args, kwargs


def _fresh(v):
    if isinstance(v, tuple):
        return tuple(list(v)) if v else ()           # a new tuple object
    if isinstance(v, str):
        return ''.join(list(v))
    return v


def lookalikes(sig_real):
    """Different call signatures that a sloppy key construction could confuse with (args, kwargs)."""
    args, kwargs = sig_real
    out = []
    items = frozenset(kwargs.items())
    if kwargs:
        out.append((args + (items,), {}))                       # keywords folded into a trailing frozenset positional
        out.append((args + tuple(kwargs.values()), {}))         # keyword values passed positionally
        out.append((args + (tuple(kwargs.items()),), {}))
        out.append((args, {k: v for k, v in list(kwargs.items())[:-1]}))
    if args:
        out.append(((args,), dict(kwargs)))                     # the whole positional tuple as ONE argument
        out.append((args[:-1], dict(kwargs, **{'x': args[-1]}) if 'x' not in kwargs else dict(kwargs)))
        out.append((args[::-1], dict(kwargs)))
        out.append((tuple(str(a) for a in args), dict(kwargs)))
    # positional-only calls that spell out a plausible *key shape* of the real call: (args, frozenset(items)) passed as two
    # arguments or as one, items as a sorted / unsorted tuple, keyword names and values flattened behind the positionals
    out.append(((args, items), {}))
    out.append((((args, items),), {}))
    out.append(((args, tuple(sorted(kwargs.items(), key=repr))), {}))
    out.append(((args, tuple(kwargs.items())), {}))
    if kwargs:
        out.append((args + tuple(x for kv in kwargs.items() for x in kv), {}))
        out.append((args + tuple(x for kv in sorted(kwargs.items(), key=repr) for x in kv), {}))
    out.append((args + ((),), dict(kwargs)))
    out.append((args, dict(kwargs, z=None)))
    return [o for o in out if o != (args, kwargs)]


def model_equal(a, b):
    """The statement's notion: positional equal in order, keywords equal as a set of pairs."""
    (pa, ka), (pb, kb) = a, b
    if len(pa) != len(pb) or any(not (x == y) for x, y in zip(pa, pb)):
        return False
    if set(ka) != set(kb):
        return False
    return all(ka[n] == kb[n] for n in ka)


class KeyWorld:
    def __init__(self, prog, sch, aa):
        self.prog = prog
        self.sch = sch
        self.aa = aa
        self.invs = []
        self.g_invs = []
        self.violations = []
        self.results = []

    def viol(self, oracle, sig, detail):
        self.violations.append({'property': 'C14', 'oracle': oracle, 'signature': sig, 'detail': detail, 'features': {},
                                'step': self.sch.step, 't': self.sch.clock})

    async def func(self, *args, **kwargs):
        i = len(self.invs)
        self.invs.append((args, dict(kwargs)))
        await asyncio.sleep(0.125)
        return ('v', i)

    async def func_g(self, *args, **kwargs):
        self.g_invs.append((args, dict(kwargs)))
        await asyncio.sleep(0.125)
        return ('g', len(self.g_invs) - 1)

    async def amain(self):
        cache = {} if self.prog['cache'] == 'dict' else None
        if self.prog.get('shared_decorator'):
            # one options-form decorator object applied to two functions: each must get its own cache
            deco = self.aa.threadsafe_async_cache()
            f = deco(self.func)
            g = deco(self.func_g)
        else:
            f = self.aa.threadsafe_async_cache(self.func, cache=cache)
            g = None
        calls = [realise(tuple(map(tuple, (s[0], [tuple(x) for x in s[1]])))) for s in self.prog['sigs']]
        if self.prog.get('lookalike') is not None and calls:
            la = lookalikes(calls[0])
            if la:
                calls[1] = la[self.prog['lookalike'] % len(la)]
        for args, kwargs in calls:
            r = await f(*args, **kwargs)
            self.results.append(r)
        # model: first call with a model-equal signature owns the entry
        owners = []
        for j, c in enumerate(calls):
            o = next((o for o in owners if model_equal(calls[o], c)), None)
            if o is None:
                owners.append(j)
                o = j
            exp_inv = owners.index(o)
            if self.results[j] != ('v', exp_inv):
                kind = 'shared_but_different' if exp_inv >= len(self.invs) or self.results[j][1] < exp_inv or o == j else 'not_shared'
                self.viol('cachekey.' + ('wrongly_shared' if o == j else 'not_shared'),
                          'calls share a cache entry although their arguments differ' if o == j else
                          'calls with equal arguments did not share a cache entry',
                          f'call {j} {c!r} got {self.results[j]!r}, expected invocation {exp_inv} (owner call {o} {calls[o]!r}); '
                          f'{len(self.invs)} invocation(s)')
                break
        if g is not None and not self.violations:
            for j, (args, kwargs) in enumerate(calls[:2]):
                r = await g(*args, **kwargs)
                if not (isinstance(r, tuple) and r[0] == 'g'):
                    self.viol('cachekey.shared_between_functions', 'two functions wrapped by one decorator object share cache entries',
                              f'g{(args, kwargs)!r} returned {r!r}, a value computed by the other function')
                    break
        if not self.violations and len(self.invs) != len(owners):
            self.viol('cachekey.invocation_count', 'number of invocations differs from the number of distinct keys',
                      f'{len(self.invs)} invocations for {len(owners)} distinct signatures: {calls!r}')

    def main(self):
        loop = SimLoop()
        asyncio.set_event_loop(loop)
        try:
            loop.run_until_complete(self.amain())
        finally:
            asyncio.set_event_loop(None)
            loop.close()


def execute(prog):
    aa, _ = env.aiuti()
    sch = S.Sched(seed=0, strategy=('sticky', 0.0), step_cap=20_000)
    sch.log('prog', json.dumps(prog, sort_keys=True))
    w = KeyWorld(prog, sch, aa)
    from ..shims import AsyncioSeams
    seams = AsyncioSeams(aa).install()
    sch.seams = seams
    install_policy()
    end = 'normal'
    try:
        try:
            sch.run(w.main)
        except S.Quiescent:
            end = 'quiescent'
            w.viol('cachekey.hang', 'sequential cached calls hang', '')
        except S.StepCap:
            end = 'stepcap'
            w.viol('cachekey.hang', 'sequential cached calls spin', '')
    finally:
        restore_policy()
        seams.restore()
    return {'end': end, 'violations': w.violations, 'digest': sch.digest(), 'steps': sch.step, 'vtime': sch.clock,
            'switches': [], 'nswitch': 0, 'edges': set(), 'faults': {}, 'probes': {}, 'leaked': 0,
            'nontrivial': len(prog['sigs']) >= 2, 'outcomes': w.results}
