"""C01 — cache is single-flight (see DESIGN.md 3.1)."""
from . import _cache
from ._cache import REAL, STUB, ASSUMPTIONS, shrink, run_case  # noqa

PROPERTY = 'C01'
LEVEL = 'exploration'
LEVEL_TEXT = 'Seeded search over programs x loop life-cycle histories x line-level schedules of the real threadsafe_async_cache on 2-4 virtual-time loops; the overlap invariant is evaluated at every entry of the wrapped function and the history afterwards. Sampling gives evidence, not proof; the windows the property is about (unlocked probe vs. locked re-probe, run_until_complete return vs. shutdown) are pre-emption points like any other line.'
LEVEL_NOTE = "Trusted: CPython 3.12.1 asyncio and threading primitives are atomic between two line events of aiuti code; SimLoop's fake selector/clock; harness-owned wrapped function as the observation point."
TECHNIQUE = 'deterministic simulation: seeded thread scheduler + virtual-time event loops + loop life-cycle fault injection, in-run invariant'
DESIGN_REF = '3.1'
CHUNK = 250
RULE = ('each run = one seeded program (2-4 threads x own SimLoop, 1-3 callers per thread over 1-2 keys, '
        'arrival/duration grid incl. zero-duration and 70 s, life-cycle histories: await all / return early then '
        'Runner shutdown / close / leave stopped, injected loop stops) under one seeded schedule '
        '(sticky / uniform / PCT, pre-emption at every line of aiuti/asyncio.py). Oracles: no two live invocations '
        'of one key (in-run), no invocation after a successful return, all value-returning callers get the first '
        'successful result. distinct_nontrivial = number of distinct run digests (program + every event + every '
        'baton move) among runs with >=1 cross-thread switch inside traced code or >=1 fired fault.')
PROBES_EXPECTED = ('cache.locked_reprobe_hit', 'cache.takeover_dead_loop', 'cache.wait_for_other',
                   'cache.cross_loop_wait')


def batches(tier):
    k = 1 if tier == 'quick' else 40
    return [{'name': 'nofault', 'n': 8000 * k, 'profile': 'c01-nofault'},
            {'name': 'faults', 'n': 40000 * k, 'profile': 'c01'}]


def make_case(batch, seed):
    return _cache.make_case(batch['profile'], seed)
