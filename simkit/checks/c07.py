"""C07 — see DESIGN.md 3.7."""
from . import _buffer
from ._buffer import REAL, STUB, ASSUMPTIONS, shrink  # noqa
from ..worlds import bufferworld as bw

PROPERTY = 'C07'
LEVEL = 'exploration'
RULE = "as C03 with wait(cancel=True/False) issued at any grid instant (idle, collecting, timer armed, function running, concurrently with another wait) and foreign threads doing submit-then-wait_from_anywhere through the real ensure_aw; plus a shutdown batch: the owner's main coroutine returns at a grid instant and the real asyncio.Runner.close() must terminate (state at shutdown recorded: idle / collecting / timer_armed / function_running). Oracles: barrier at the step each wait() returns; no run ends quiescent with a wait() pending; shutdown terminates and the DaemonTask is done. distinct by run digest."
LEVEL_TEXT = "Seeded search over wait()/shutdown instants in virtual time and line-level interleavings of a foreign submit-then-wait thread; the barrier is evaluated at the exact scheduler step at which each wait() returns, and the scheduler's quiescence detector decides 'always returns' and 'shutdown terminates'."
LEVEL_NOTE = 'Trusted: as C03. Shutdown is the real Runner.close() sequence (cancel all tasks, drain, shutdown_asyncgens, close).'
TECHNIQUE = 'deterministic simulation: barrier oracle at wait() return, quiescence = hang detector, loop-shutdown fault injection at grid instants'
CHUNK = 200
DESIGN_REF = '3.7'
PROFILES = [('c07-solo', 5000), ('c07', 10000), ('c07-shutdown', 6000)]


# ---- fault enumeration: shut the loop down at every grid instant of fixed base programs
def _bp(ops, func, T=0.125):
    return {'world': 'buffer', 'profile': 'c07-sweep', 'T': T, 'ops': ops, 'foreign': [], 'func': func, 'form': 'direct'}


_OK = [{'dur': 0.25, 'fail': False}] * 6
_FAIL1 = [{'dur': 0.0625, 'fail': True}] + [{'dur': 0.25, 'fail': False}] * 5
SWEEP_BASES = [
    _bp([{'op': 'call', 'elems': [0], 'at': 0.0}], _OK),
    _bp([{'op': 'call', 'elems': [0], 'at': 0.0}, {'op': 'call', 'elems': [1], 'at': 0.0625}, {'op': 'wait', 'cancel': True, 'at': 0.09375}], _OK),
    _bp([{'op': 'amap', 'elems': [0, 1], 'delays': [0.0, 0.25, 0.0], 'fail_at': None, 'at': 0.0}], _OK),
    _bp([{'op': 'await', 'elems': [0], 'delay': 0.1875, 'fail': False, 'at': 0.0}, {'op': 'wait', 'cancel': False, 'at': 0.03125}], _OK),
    _bp([{'op': 'call', 'elems': [0], 'at': 0.0}], _FAIL1),
    _bp([{'op': 'map_iter', 'elems': [0, 1], 'delays': [0.0, 0.125, 0.0], 'fail_at': None, 'at': 0.0}], _OK),
    _bp([{'op': 'call', 'elems': [0], 'at': 0.0}, {'op': 'call', 'elems': [1], 'at': 0.3125}], _OK, T=0.25),
]
SWEEP_Q = 1.0 / 128
SWEEP_N = 129           # instants 0, 1/128, ..., 1.0


def batches(tier):
    k = 1 if tier == 'quick' else 40
    out = [{'name': n, 'n': c * k, 'profile': n} for n, c in PROFILES]
    out.append({'name': 'shutdown-sweep', 'n': len(SWEEP_BASES) * SWEEP_N, 'profile': 'sweep', 'chunk': 150})
    return out


def make_case(batch, seed):
    if batch['profile'] == 'sweep':
        import json
        bi, ti = divmod(batch['index'], SWEEP_N)
        prog = json.loads(json.dumps(SWEEP_BASES[bi]))
        prog['shutdown_at'] = ti * SWEEP_Q
        return {'prog': prog, 'sched': {'seed': seed, 'strategy': ['sticky', 0.1]}}
    return _buffer.make_case(batch['profile'], seed, batch.get('index'))


def run_case(case):
    return bw.execute(case['prog'], case.get('sched') or {}, props=('C07',))


def extra_evidence(agg):
    return {'fault_enumeration': f'shutdown-sweep: {len(SWEEP_BASES)} fixed base programs x {SWEEP_N} shutdown instants (every 1/128 s of '
                                 'virtual time in [0, 1]); the state the buffer was in at each shutdown is counted under '
                                 'faults_fired_by_kind (shutdown.in_state.*)',
            'exhaustive_dimension': 'shutdown instant on the 1/128 s grid for each fixed base program'}
