"""
decoworld — C15.  (A) differential simulation: the same seeded timed program is run against the
direct form and the options form of each decorator (for the batcher also the class), in separate
simulations; the virtual-time traces must be equal.  (B) a function decorated with
async_background_batcher used from 1-3 loops one after another and from 2-3 loops at once.
"""

import asyncio
import json
import random
from functools import partial

from .. import sched as S
from .. import env
from .. import tracedmap
from ..loop import SimLoop, install_policy, restore_policy
from ..shims import AsyncioSeams
from . import batcherworld as bw
from . import bufferworld as fw

Q = 1.0 / 64
# verdicts of the C08 / C10 / C11 oracles that say "an option did not take effect with the value given"
OPTION_EFFECTS = {
    'batcher.oversize', 'batcher.split_burst',                           # max_batch_size (and batch_timeout)
    'batcher.concurrency', 'batcher.late_dispatch',                      # max_concurrent_batches, batch_timeout
    'batcher.stale_result', 'batcher.recomputed_in_window', 'batcher.work_count',     # retention_timeout
    'buffer.early_call', 'buffer.burst_never_called', 'buffer.burst_split', 'buffer.burst_call_count',     # timeout
}


def _w(rng, pairs):
    tot = sum(w for _, w in pairs)
    x = rng.random() * tot
    for v, w in pairs:
        x -= w
        if x < 0:
            return v
    return pairs[-1][0]


# ------------------------------------------------------------ (A) differential
def gen_diff(rng, which):
    if which == 'batcher':
        base = rng.choice(['c10', 'c11', 'c04-nostopiter'])
        prog = bw.gen_program(rng, base)
        prog.pop('mutate', None)
        # non-default values for every option, one at a time or jointly
        mode = rng.random()
        if mode < 0.5:
            opt = rng.choice(['max_batch_size', 'max_concurrent_batches', 'batch_timeout', 'retention_timeout'])
            defaults = {'max_batch_size': 256, 'max_concurrent_batches': 5, 'batch_timeout': 0.05, 'retention_timeout': 0.0}
            for k, v in defaults.items():
                if k != opt:
                    prog[k] = v
            if opt == 'retention_timeout' and not prog[opt]:
                prog[opt] = prog['batch_timeout'] * 2 if prog['batch_timeout'] != 0.05 else 0.125
        elif not prog['retention_timeout']:
            prog['retention_timeout'] = rng.choice([0.0, 0.125, 4.0])
        if rng.random() < 0.35:
            # the configured decorator object is applied to a second function as well (direct forms: same option values)
            t2, by = 0.0, []
            for j in range(rng.randint(1, 3)):
                t2 += _w(rng, [(0.0, 3), (Q, 3), (8 * Q, 2)])
                by.append({"at": t2, "key": f"k{rng.randrange(4)}"})
            prog['bystander'] = by
            prog['by_same_opts'] = True
        return {'world': 'deco', 'part': 'diff', 'which': 'batcher', 'forms': ['class', 'func', 'deco'], 'base': prog}
    if which == 'buffer':
        prog = fw.gen_program(rng, _w(rng, [('c08-nofail', 4), ('c08', 4), ('c08-flush', 3)]))
        for op in prog['ops']:
            if op['op'] == 'map_iter':           # keep it single-threaded: the schedule must have no choice in it
                op['op'] = 'map_list'
                op.pop('delays', None)
                op.pop('fail_at', None)
        prog['T'] = rng.choice([0.0, 0.125, 0.25, 1.0, 2.0])       # 0 is a legal, falsy option value
        prog.pop('runner', None)            # single-threaded only: the schedule must have no choice in it
        prog['foreign'] = []
        if rng.random() < 0.35:
            t2, by = 0.0, []
            for j in range(rng.randint(1, 3)):
                t2 += _w(rng, [(0.0, 3), (Q, 3), (8 * Q, 2)])
                by.append({'at': t2, 'elem': 1000 + j})
            prog['bystander'] = {'T': prog['T'], 'ops': by, 'same_opts': True}
        elif prog.get('bystander'):
            prog['bystander'].pop('same_opts', None)
        return {'world': 'deco', 'part': 'diff', 'which': 'buffer', 'forms': ['direct', 'deco'], 'base': prog}
    # cache: one loop, a few timed callers
    n = rng.randint(1, 6)
    calls = []
    t = 0.0
    for _ in range(n):
        t += _w(rng, [(0.0, 4), (Q, 3), (8 * Q, 2), (1.0, 1)])
        calls.append({'at': t, 'key': rng.randrange(3), 'fn': 1 if rng.random() < 0.3 else 0})
    return {'world': 'deco', 'part': 'diff', 'which': 'cache', 'forms': ['direct', 'deco'],
            'base': {'calls': calls, 'durs': [_w(rng, [(0.0, 2), (Q, 3), (16 * Q, 2)]) for _ in range(4)],
                     'fail': [rng.random() < 0.2 for _ in range(4)],
                     'cache': _w(rng, [('map', 5), ('dict', 3), ('lru', 2), ('none', 4)])}}


def run_cache_form(base, form):
    aa, _ = env.aiuti()
    sch = S.Sched(seed=0, strategy=('sticky', 0.0), step_cap=30_000, trace_files=(aa.__file__,))
    trace = {'invocations': [], 'calls': [], 'store': None, 'end': 'normal'}
    state = {}

    def main():
        loop = SimLoop()
        asyncio.set_event_loop(loop)
        try:
            loop.run_until_complete(amain())
        finally:
            asyncio.set_event_loop(None)
            loop.close()

    async def amain():
        if base['cache'] == 'map':
            m = tracedmap.RetainingMap()
        elif base['cache'] == 'dict':
            m = {}
        elif base['cache'] == 'none':
            m = None                    # the option left at its default: every wrapped function gets a private dict
        else:
            from lru import LRU
            m = LRU(2)
        state['m'] = m

        per_key = {}

        async def body(fn, k):
            # what an invocation does depends on (function, key, how many invocations of that key came before), never on a
            # global order: which of several equal waiters recomputes first, or which of two keys finishing at the same
            # instant is handled first, is open to the implementation and must not change the trace
            n = per_key[(fn, k)] = per_key.get((fn, k), -1) + 1
            i = (n + k + 2 * fn) % 4
            trace['invocations'].append([fn, k, n, sch.clock])
            d = base['durs'][i]
            if d:
                await asyncio.sleep(d)
            if base['fail'][i]:
                raise bw.BatchError(fn, k, n)
            return ['v', fn, k, n]

        async def func(k):
            return await body(0, k)

        async def func1(k):
            return await body(1, k)
        # two functions: wrapped directly with the same option value, or by ONE configured decorator object
        if form == 'direct':
            f = [aa.threadsafe_async_cache(func, cache=m), aa.threadsafe_async_cache(func1, cache=m)]
        else:
            deco = aa.threadsafe_async_cache(cache=m)
            f = [deco(func), deco(func1)]

        async def caller(j, c):
            who = [c.get('fn', 0), c['key']]        # callers of one function with one key are interchangeable
            try:
                r = await f[c.get('fn', 0)](c['key'])
                trace['calls'].append(who + ['value', repr(r), sch.clock])
            except Exception as e:  # noqa
                trace['calls'].append(who + ['exc', repr(e), sch.clock])
        tasks = []
        for j, c in enumerate(base['calls']):
            if c['at'] > loop_time():
                await asyncio.sleep(c['at'] - loop_time())
            tasks.append(asyncio.get_running_loop().create_task(caller(j, c)))
        await asyncio.gather(*tasks)
        trace['store'] = sorted((repr(k), repr(v)) for k, v in m.items()) if m is not None else None

    def loop_time():
        return sch.clock
    seams = AsyncioSeams(aa).install()
    sch.seams = seams
    install_policy()
    try:
        try:
            sch.run(main)
        except S.Quiescent:
            trace['end'] = 'quiescent'
        except S.StepCap:
            trace['end'] = 'stepcap'
    finally:
        restore_policy()
        seams.restore()
    trace['calls'].sort()
    trace['invocations'].sort()
    return trace, sch


def run_diff(prog):
    which = prog['which']
    traces = {}
    vt = 0.0
    steps = 0
    extra = []
    for form in prog['forms']:
        base = json.loads(json.dumps(prog['base']))
        if which == 'batcher':
            base['form'] = form
            want = {'c10': ('C10',), 'c11': ('C11',)}.get(base['profile'], ()) if form == 'deco' else ()
            r = bw.execute(base, None, props=want)
            traces[form] = r['trace']
            vt += r['vtime']
            steps += r['steps']
            if form == 'deco':
                extra = [v for v in r['violations'] if v['property'] in want]
        elif which == 'buffer':
            base['form'] = form
            r = fw.execute(base, {}, props=('C08',) if form == 'deco' else ())
            traces[form] = r['trace']
            vt += r['vtime']
            steps += r['steps']
            if form == 'deco':
                extra = [v for v in r['violations'] if v['property'] == 'C08']
        else:
            t, sch = run_cache_form(base, form)
            traces[form] = t
            vt += sch.clock
            steps += sch.step
    return traces, vt, steps, extra


# --------------------------------------------------------------- (B) multi-loop
def gen_multi(rng, mode):
    if mode == 'alternating':
        # one thread drives several OPEN loops in turn with run_until_complete(): a loop is paused, not closed, in between
        nloops = rng.randint(2, 3)
        segs = []
        for _ in range(rng.randint(3, 6)):
            calls = []
            t = 0.0
            for _c in range(rng.randint(1, 3)):
                t += _w(rng, [(0.0, 5), (Q, 2), (0.0625 + Q, 2), (0.25, 1)])
                calls.append({'at': t, 'arg': rng.randrange(3)})
            segs.append({'loop': rng.randrange(nloops), 'calls': calls})
        return {'world': 'deco', 'part': 'multi', 'mode': mode, 'loops': [{'calls': []} for _ in range(nloops)], 'segments': segs,
                'opts': {'max_batch_size': rng.randint(1, 3), 'batch_timeout': 0.0625,
                         'max_concurrent_batches': rng.randint(1, 2), 'retention_timeout': rng.choice([0.0, 0.125, 4.0, 4.0])},
                'item_dur': rng.choice([0.0, Q, 0.125])}
    nloops = rng.randint(1, 3) if mode == 'successive' else rng.randint(2, 3)
    loops = []
    for li in range(nloops):
        n = rng.randint(1, 4)
        calls = []
        t = 0.0
        for ci in range(n):
            t += _w(rng, [(0.0, 5), (Q, 2), (0.0625 + Q, 2), (0.25, 1)])
            calls.append({'at': t, 'arg': rng.randrange(3)})
        loops.append({'calls': calls, 'start': _w(rng, [(0.0, 6), (Q, 2), (0.125, 1)])})
    return {'world': 'deco', 'part': 'multi', 'mode': mode, 'loops': loops,
            'opts': {'max_batch_size': rng.randint(1, 3), 'batch_timeout': 0.0625,
                     'max_concurrent_batches': rng.randint(1, 2), 'retention_timeout': rng.choice([0.0, 0.125])},
            'item_dur': rng.choice([0.0, Q, 0.125])}


class MultiWorld:
    def __init__(self, prog, sch, aa):
        self.prog = prog
        self.sch = sch
        self.aa = aa
        self.batches = []
        self.results = {}
        self.violations = []
        self.harness_errors = []
        self.pending = set()
        self.loop_t0 = {}
        self.loop_of = {}
        self.seg_times = []

    def viol(self, oracle, sig, detail, **f):
        self.violations.append({'property': 'C15', 'oracle': oracle, 'signature': sig, 'detail': detail, 'features': f,
                                'step': self.sch.step, 't': self.sch.clock})

    async def bf(self, items):
        loop = asyncio.get_running_loop()
        items = list(items)
        b = len(self.batches)
        self.batches.append({'b': b, 'loop': loop.sim_id, 'items': items, 't': self.sch.clock})
        self.sch.log('batch', b, loop.sim_id, [k for k, _ in items])
        for key, arg in items:
            if self.prog['item_dur']:
                await asyncio.sleep(self.prog['item_dur'])
            yield key, ('T', b, loop.sim_id, key, arg)

    async def lmain(self, li):
        loop = asyncio.get_running_loop()
        spec = self.prog['loops'][li]
        t0 = loop.time()
        self.loop_t0[loop.sim_id] = t0
        self.loop_of[loop.sim_id] = li
        tasks = []
        for ci, c in enumerate(spec['calls']):
            due = t0 + c['at']
            if due > loop.time():
                await asyncio.sleep(due - loop.time())
            tasks.append(loop.create_task(self.one_call(li, ci, c)))
        await asyncio.gather(*tasks)

    async def one_call(self, li, ci, c):
        loop = asyncio.get_running_loop()
        self.pending.add((li, ci))
        try:
            r = await self.fn(c['arg'], key='k%d' % c['arg'])
            self.results[(li, ci)] = ('value', r, loop.sim_id)
        except Exception as e:  # noqa
            self.results[(li, ci)] = ('exc', e, loop.sim_id)
        self.pending.discard((li, ci))

    def run_loop(self, li):
        try:
            if self.prog['loops'][li]['start'] and self.prog['mode'] == 'concurrent':
                self.sch.sleep(self.prog['loops'][li]['start'])
            runner = asyncio.Runner(loop_factory=SimLoop)
            with runner:
                runner.run(self.lmain(li))
        except S.Abort:
            raise
        except BaseException as e:  # noqa
            self.harness_errors.append(f'loop {li}: {type(e).__name__}: {e}')

    def run_alternating(self):
        sch = self.sch
        p = self.prog
        try:
            loops = [SimLoop() for _ in p['loops']]
            for li, L in enumerate(loops):
                self.loop_of[L.sim_id] = li
                self.loop_t0[L.sim_id] = 0.0
            self.seg_times = []
            solo = p.get('_solo')
            for si, seg in enumerate(p['segments']):
                t0 = sch.clock
                if solo is not None and seg['loop'] != solo:
                    # the other loops' segments only let (the same amount of) time pass
                    a, b = p['_seg_times'][si]
                    if b > sch.clock:
                        sch.sleep(b - sch.clock)
                else:
                    L = loops[seg['loop']]
                    asyncio.set_event_loop(L)
                    L.run_until_complete(self.lmain_seg(seg['loop'], si, seg))
                    asyncio.set_event_loop(None)
                self.seg_times.append((t0, sch.clock))
            for L in loops:
                asyncio.set_event_loop(L)
                asyncio.runners._cancel_all_tasks(L)
                L.close()
            asyncio.set_event_loop(None)
        except S.Abort:
            raise
        except BaseException as e:  # noqa
            self.harness_errors.append(f'alternating: {type(e).__name__}: {e}')

    async def lmain_seg(self, li, si, seg):
        loop = asyncio.get_running_loop()
        t0 = loop.time()
        tasks = []
        for ci, c in enumerate(seg['calls']):
            due = t0 + c['at']
            if due > loop.time():
                await asyncio.sleep(due - loop.time())
            tasks.append(loop.create_task(self.one_call((li, si), ci, c)))
        await asyncio.gather(*tasks)

    def main(self):
        sch = self.sch
        self.fn = self.aa.async_background_batcher(**self.prog['opts'])(self.bf)
        if self.prog['mode'] == 'alternating':
            t = sch.spawn(self.run_alternating, 'driver')
            sch.join([t])
        elif self.prog['mode'] == 'successive':
            for li in range(len(self.prog['loops'])):
                t = sch.spawn(partial(self.run_loop, li), f'loop{li}')
                sch.join([t])
        else:
            ths = [sch.spawn(partial(self.run_loop, li), f'loop{li}') for li in range(len(self.prog['loops']))]
            sch.join(ths)

    def per_loop_trace(self):
        """{program loop index: [[keys of the batch, start relative to that loop's first call], ...]}"""
        out = {}
        for b in self.batches:
            li = self.loop_of.get(b['loop'])
            out.setdefault(li, []).append([[k for k, _ in b['items']], b['t'] - self.loop_t0.get(b['loop'], 0.0)])
        return out

    def judge(self, end):
        for e in self.harness_errors:
            self.violations.append({'property': 'HARNESS', 'oracle': 'harness.error', 'signature': 'harness error',
                                    'detail': e, 'features': {}})
        if end != 'normal':
            self.viol('deco.multiloop_hang', 'a caller of the decorated batcher never completes',
                      f'mode {self.prog["mode"]}: run ended {end}; pending callers {sorted(self.pending)}', mode=self.prog['mode'])
        for (li, ci), (kind, r, lid) in sorted(self.results.items(), key=repr):
            c = self.prog['segments'][li[1]]['calls'][ci] if isinstance(li, tuple) else self.prog['loops'][li]['calls'][ci]
            if kind != 'value':
                self.viol('deco.multiloop_error', 'a caller of the decorated batcher failed',
                          f'loop {li} call {ci}: {r!r}', mode=self.prog['mode'])
                continue
            if not (isinstance(r, tuple) and r[0] == 'T' and r[3] == 'k%d' % c['arg'] and r[4] == c['arg']):
                self.viol('deco.multiloop_wrong_result', 'wrong result through the decorated batcher', f'loop {li} call {ci}: {r!r}')
                continue
            if r[2] != lid:
                self.viol('deco.multiloop_mixed', "a call was served by another loop's batch",
                          f'loop {li} (sim loop {lid}) call {ci} got a result computed on sim loop {r[2]} (batch {r[1]})',
                          mode=self.prog['mode'])


def run_multi(prog, sspec, solo_of=None):
    aa, _ = env.aiuti()
    sch = S.Sched(seed=sspec.get('seed', 0), strategy=sspec.get('strategy', ('sticky', 0.1)),
                  switches=sspec.get('switches'), strict=sspec.get('strict', True),
                  step_cap=60_000, trace_files=(aa.__file__,))
    sch.log('prog', json.dumps(prog, sort_keys=True))
    w = MultiWorld(prog, sch, aa)
    seams = AsyncioSeams(aa).install()
    sch.seams = seams
    install_policy()
    end = 'normal'
    try:
        try:
            sch.run(w.main)
        except S.Quiescent:
            end = 'quiescent'
        except S.StepCap as e:
            end = 'livelock' if e.clock_stuck else 'stepcap'
        except S.ReplayDiverged as e:
            end = 'diverged'
            w.harness_errors.append(f'REPLAY-DIVERGED {e}')
    finally:
        restore_policy()
        seams.restore()
    w.judge(end)
    for L in sch.loops:
        if not L.is_closed() and not L.is_running():
            try:
                L.close()
            except Exception:
                pass
    trace = w.per_loop_trace()
    if solo_of is not None:
        return trace.get(solo_of if prog['mode'] == 'alternating' else 0, [])
    if prog['mode'] == 'alternating' and end == 'normal' and not w.violations:
        for li in range(len(prog['loops'])):
            if not any(seg['loop'] == li for seg in prog['segments']):
                continue
            solo = json.loads(json.dumps(prog))
            solo['_solo'] = li
            solo['_seg_times'] = [list(x) for x in w.seg_times]
            alone = run_multi(solo, {'seed': 0, 'strategy': ('sticky', 0.0)}, solo_of=li)
            if alone != trace.get(li, []):
                w.viol('deco.multiloop_not_independent', "a loop's batching depends on the other loops using the decorated function",
                       f'mode alternating (one thread drives {len(prog["loops"])} open loops in turn), options {prog["opts"]}: loop {li} '
                       f'with the others idle batches as {alone}, interleaved with their use as {trace.get(li, [])}', mode='alternating')
                break
    if prog['mode'] != 'alternating' and end == 'normal' and not w.violations and len(prog['loops']) > 1:
        # "each loop getting its own independent batching": what a loop's callers see must not depend on the other
        # loops -- compare every loop's batches (contents, instants relative to its start) with a run of that loop alone
        for li in range(len(prog['loops'])):
            solo = json.loads(json.dumps(prog))
            solo['loops'] = [prog['loops'][li]]
            solo['mode'] = 'successive'
            alone = run_multi(solo, {'seed': 0, 'strategy': ('sticky', 0.0)}, solo_of=li)
            if alone != trace.get(li, []):
                w.viol('deco.multiloop_not_independent', "a loop's batching depends on the other loops using the decorated function",
                       f'mode {prog["mode"]}, options {prog["opts"]}: loop {li} alone batches as {alone}, together with the others as '
                       f'{trace.get(li, [])}', mode=prog['mode'])
                break
    return {'end': end, 'violations': w.violations, 'digest': sch.digest(), 'steps': sch.step, 'vtime': sch.clock,
            'switches': [list(x) for x in sch.switch_log], 'nswitch': sch.nswitch, 'nswitch_traced': sch.nswitch_traced,
            'edges': sch.edges, 'faults': {'multi.' + prog['mode']: 1},
            'probes': {'deco.loops_used': len(prog['loops']), 'deco.batches': len(w.batches)}, 'leaked': sch.leaked,
            'nontrivial': len(prog['loops']) >= 2, 'outcomes': sorted((k, v[0]) for k, v in w.results.items())}


def execute(prog, sspec):
    if prog['part'] == 'multi':
        return run_multi(prog, sspec or {})
    traces, vt, steps, extra = run_diff(prog)
    forms = prog['forms']
    violations = []
    ref = traces[forms[0]]
    for f in forms[1:]:
        if traces[f] != ref:
            diff = first_diff(ref, traces[f])
            opts = {k: prog['base'].get(k) for k in ('max_batch_size', 'max_concurrent_batches', 'batch_timeout',
                                                     'retention_timeout', 'T', 'cache') if k in prog['base']}
            violations.append({'property': 'C15', 'oracle': 'deco.trace_differs',
                               'signature': 'options form behaves differently from the direct form',
                               'detail': f'{prog["which"]}: form "{f}" vs "{forms[0]}" with options {opts}: {diff}',
                               'features': {'which': prog['which'], 'form': f}})
            break
    for v in extra:
        if v['oracle'] not in OPTION_EFFECTS:
            continue        # a clause of C08/C10/C11 that no option governs (arrival order, empty calls ...) is not C15's to judge
        violations.append({'property': 'C15', 'oracle': 'deco.option_ineffective:' + v['oracle'],
                           'signature': 'an option given to the options form did not take effect',
                           'detail': f'{prog["which"]} (options form): {v["detail"]}', 'features': {'which': prog['which']}})
    h = S.hashlib.blake2b(json.dumps([prog, traces], sort_keys=True, default=repr).encode(), digest_size=16).hexdigest()
    return {'end': 'normal', 'violations': violations, 'digest': h, 'steps': steps, 'vtime': vt, 'switches': [],
            'nswitch': 0, 'edges': set(), 'faults': {'diff.' + prog['which']: 1}, 'probes': {}, 'leaked': 0,
            'nontrivial': True, 'outcomes': [len(str(ref))]}


def first_diff(a, b):
    for k in a:
        if a[k] != b.get(k):
            if isinstance(a[k], list):
                for i, (x, y) in enumerate(zip(a[k], b[k])):
                    if x != y:
                        return f'{k}[{i}]: {x!r} vs {y!r}'
                return f'{k}: lengths {len(a[k])} vs {len(b[k])}'
            return f'{k}: {a[k]!r} vs {b[k]!r}'
    return 'traces differ'
