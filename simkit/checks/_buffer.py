"""Shared pieces of the buffer checks (C03, C07, C08)."""
import json
import random

from .. import sched as S
from ..worlds import bufferworld as bw

REAL = ['aiuti.asyncio.buffer_until_timeout / BufferAsyncCalls / to_async_iter / ensure_aw / run_aw_threadsafe / DaemonTask '
        '(unmodified source, line-traced)',
        'asyncio BaseEventLoop scheduling core, Task/Future, Queue (join/task_done), Event, wait_for, gather, Runner '
        '(CPython 3.12.1)', 'concurrent.futures.Future (inside SimFuture)', 'real OS threads (one runs at a time)']
STUB = ['selector / self-pipe', 'loop clock (virtual)', 'ThreadPoolExecutor (SimPool: sim threads, same observable API)',
        'which thread runs next (seeded scheduler at line events of aiuti/asyncio.py)',
        'wrapped function and producers (harness-owned, scripted)']
ASSUMPTIONS = [
    'CPython 3.12.1 only; stdlib/C code between two line events of aiuti code is atomic',
    'only finitely many invocations of the wrapped function fail (the first 6 at most), so "eventually" is decidable',
    'foreign threads submit only while the owning loop runs (the class documents that requirement)',
    'sampling, not enumeration',
]


def make_case(profile, seed, index=None):
    rng = random.Random(seed)
    prog = bw.gen_program(rng, profile, index)
    strat = S.pick_strategy(rng)
    return {'prog': prog, 'sched': {'seed': seed, 'strategy': list(strat)}}


def _clone(c):
    return json.loads(json.dumps(c))


def shrink(case):
    prog = case['prog']
    for fi in range(len(prog['foreign'])):
        c = _clone(case)
        del c['prog']['foreign'][fi]
        yield c
    for i in range(len(prog['ops'])):
        c = _clone(case)
        del c['prog']['ops'][i]
        yield c
    for fi, fops in enumerate(prog['foreign']):
        if len(fops) > 1:
            for i in range(len(fops)):
                c = _clone(case)
                del c['prog']['foreign'][fi][i]
                yield c
    for i, f in enumerate(prog['func']):
        if f['fail']:
            c = _clone(case)
            c['prog']['func'][i]['fail'] = False
            yield c
        if f['dur']:
            c = _clone(case)
            c['prog']['func'][i]['dur'] = 0.0
            yield c

    def simplify_ops(get):
        for i, op in enumerate(get(prog)):
            if op.get('fail_at') is not None:
                c = _clone(case)
                get(c['prog'])[i]['fail_at'] = None
                yield c
            if op.get('delays') and any(op['delays']):
                c = _clone(case)
                get(c['prog'])[i]['delays'] = [0.0] * len(op['delays'])
                yield c
            if op.get('delay'):
                c = _clone(case)
                get(c['prog'])[i]['delay'] = 0.0
                yield c
            if op.get('fail'):
                c = _clone(case)
                get(c['prog'])[i]['fail'] = False
                yield c
            if op['op'] in ('map_iter', 'amap', 'await', 'map_list') and len(op.get('elems', ())) == 1:
                c = _clone(case)
                o = get(c['prog'])[i]
                o['op'] = 'call'
                for k in ('delays', 'fail_at', 'delay', 'fail'):
                    o.pop(k, None)
                yield c
    yield from simplify_ops(lambda p: p['ops'])
    for fi in range(len(prog['foreign'])):
        yield from simplify_ops(lambda p, fi=fi: p['foreign'][fi])
    # compress time
    ops = prog['ops']
    for i, op in enumerate(ops):
        prev = ops[i - 1]['at'] if i else 0.0
        if op['at'] > prev:
            c = _clone(case)
            d = op['at'] - prev
            for j in range(i, len(ops)):
                c['prog']['ops'][j]['at'] -= d
            if 'shutdown_at' in c['prog']:
                c['prog']['shutdown_at'] = max(0.0, c['prog']['shutdown_at'] - d)
            yield c
    if prog['form'] != 'direct' and prog['T'] != 1.0 or prog['form'] == 'deco':
        c = _clone(case)
        c['prog']['form'] = 'direct'
        yield c
