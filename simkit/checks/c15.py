"""C15 — decorator-with-options forms (see DESIGN.md 3.15)."""
import json
import random

from .. import sched as S
from ..worlds import decoworld as dw

PROPERTY = 'C15'
LEVEL = 'exploration'
DESIGN_REF = '3.15'
CHUNK = 300
RULE = ('(A) differential: one seeded timed program per run, executed in separate simulations against the direct form and the options '
        'form of a decorator (async_background_batcher: class / function / options form; buffer_until_timeout: direct / options; '
        'threadsafe_async_cache: direct / options with a caller-supplied mapping), every option set to a non-default value one at a '
        'time or jointly; the virtual-time traces (batches or invocations with contents and instants, caller outcomes and instants, '
        'final contents of the supplied mapping) must be identical, and the option-effect oracles of C08/C10/C11 are applied to the '
        'options form. Single-loop programs only, so the schedule has no choice in it and equality is exact. (B) a function decorated '
        'with async_background_batcher(**opts) used from 1-3 SimLoops one after another (each run and closed by a real asyncio.Runner) '
        'from 2-3 at once (threads, line-level pre-emption incl. the per-loop registry lookup) and from 2-3 open loops driven alternately by one thread (paused, not closed, in between): every caller completes with the '
        'result for its key, and that result was computed by a batch running on the caller\'s own loop. distinct by run digest.')
LEVEL_TEXT = ('Differential deterministic simulation: because virtual time and the single-loop schedule are fully determined by the '
              'program, "behaves identically" is an exact trace comparison; the multi-loop clause is a seeded thread-schedule search.')
LEVEL_NOTE = 'Trusted: CPython 3.12.1 asyncio; the harness-owned wrapped functions as observation points.'
TECHNIQUE = 'differential deterministic simulation (trace equality in virtual time) + seeded thread scheduling for the multi-loop clause'
REAL = ['aiuti.asyncio.threadsafe_async_cache / buffer_until_timeout / async_background_batcher / AsyncBackgroundBatcher (unmodified)',
        'asyncio loop core, Runner (CPython 3.12.1)']
STUB = ['selector / clock', 'wrapped functions (harness-owned)', 'thread scheduling (multi-loop part)']
ASSUMPTIONS = ['CPython 3.12.1 only', 'sampling over programs and option values']


def batches(tier):
    k = 1 if tier == 'quick' else 40
    return [{'name': 'diff-batcher', 'n': 12000 * k, 'profile': 'batcher'},
            {'name': 'diff-buffer', 'n': 8000 * k, 'profile': 'buffer'},
            {'name': 'diff-cache', 'n': 6000 * k, 'profile': 'cache'},
            {'name': 'multi-successive', 'n': 4000 * k, 'profile': 'successive'},
            {'name': 'multi-concurrent', 'n': 6000 * k, 'profile': 'concurrent'},
            {'name': 'multi-alternating', 'n': 5000 * k, 'profile': 'alternating'}]


def make_case(batch, seed):
    rng = random.Random(seed)
    if batch['profile'] in ('successive', 'concurrent', 'alternating'):
        prog = dw.gen_multi(rng, batch['profile'])
        return {'prog': prog, 'sched': {'seed': seed, 'strategy': list(S.pick_strategy(rng))}}
    return {'prog': dw.gen_diff(rng, batch['profile']), 'sched': {}}


def run_case(case):
    return dw.execute(case['prog'], case.get('sched') or {})


def shrink(case):
    p = case['prog']
    if p['part'] == 'multi' and p['mode'] == 'alternating':
        if len(p['segments']) > 1:
            for i in range(len(p['segments'])):
                c = json.loads(json.dumps(case))
                del c['prog']['segments'][i]
                yield c
        return
    if p['part'] == 'multi':
        if len(p['loops']) > 1:
            for i in range(len(p['loops'])):
                c = json.loads(json.dumps(case))
                del c['prog']['loops'][i]
                yield c
        for i, l in enumerate(p['loops']):
            if len(l['calls']) > 1:
                for j in range(len(l['calls'])):
                    c = json.loads(json.dumps(case))
                    del c['prog']['loops'][i]['calls'][j]
                    yield c
        return
    base = p['base']
    key = 'calls' if 'calls' in base else 'ops'
    if len(base[key]) > 1:
        for i in range(len(base[key])):
            c = json.loads(json.dumps(case))
            del c['prog']['base'][key][i]
            yield c
