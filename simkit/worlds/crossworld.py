"""
crossworld — ensure_aw / run_aw_threadsafe / loop_in_thread (C17).

2-3 caller threads, each running its own SimLoop, await something on one target loop that is the
caller's own, idle, running through the real loop_in_thread, or closed.  _CROSS_LOOP_POOL is a
SimPool(32); pre-emption at every line of aiuti/asyncio.py.
"""

import asyncio
import json
import re
from functools import partial

from .. import sched as S
from .. import env
from ..loop import SimLoop, install_policy, restore_policy
from ..shims import AsyncioSeams

Q = 1.0 / 64

PROBE_PATTERNS = {
    'ensure_aw.own_loop': r'^\s+return await aw\s*$',
    'ensure_aw.threadsafe_branch': r'return await run_aw_threadsafe\(aw, loop\)',
    'ensure_aw.closed_target': r'raise RuntimeError\("Target loop is closed!"\)',
    'ensure_aw.idle_path': r'return await main_loop\.run_in_executor\(_CROSS_LOOP_POOL, _loop_thread\)',
    'looplock.create': r'lock = _LOOP_LOCKS\[key\] = Lock\(\)',
    'looplock.locked_recheck': r'^\s+return _LOOP_LOCKS\[key\]\s*$',      # 2nd occurrence
    'loop_in_thread.spin': r'sleep\(0\)\s+# Force switching',
}


def build_probes(path):
    lines = open(path).read().split('\n')
    out = {}
    unmapped = []
    for name, pat in PROBE_PATTERNS.items():
        rx = re.compile(pat)
        hits = [n + 1 for n, l in enumerate(lines) if rx.search(l)]
        if name == 'looplock.locked_recheck':
            hits = hits[1:2]
        if name == 'ensure_aw.own_loop':
            # the one inside ensure_aw (first after "main_loop is loop")
            idx = [n + 1 for n, l in enumerate(lines) if 'if main_loop is loop:' in l]
            hits = [h for h in hits if idx and h == idx[0] + 1]
        if not hits:
            unmapped.append(name)
        else:
            out[hits[0]] = name
    return out, unmapped


class AwError(Exception):
    pass


class AwBaseError(BaseException):
    """An awaitable's failure that is not an Exception subclass."""


def _w(rng, pairs):
    tot = sum(w for _, w in pairs)
    x = rng.random() * tot
    for v, w in pairs:
        x -= w
        if x < 0:
            return v
    return pairs[-1][0]


def gen_program(rng, profile, index=None):
    target = _w(rng, [('idle', 5), ('running', 4), ('own', 1), ('closed', 1)])
    if profile.endswith('-single'):
        ncall = 1
    else:
        ncall = _w(rng, [(1, 1), (2, 5), (3, 3)])
    callers = []
    for _ in range(ncall):
        fn = 'ensure_aw'
        if target == 'running' and rng.random() < 0.3:
            fn = 'run_aw_threadsafe'
        callers.append({'fn': fn, 'kind': _w(rng, [('coro', 5), ('future', 2), ('task', 2), ('object', 2)]),
                        'out': _w(rng, [('return', 7), ('raise', 3), ('raise_base', 1), ('raise_cancelled', 1)]),
                        'delay': _w(rng, [(0.0, 4), (Q, 3), (4 * Q, 2), (1.0, 1)]),
                        'start': _w(rng, [(0.0, 6), (Q, 2), (4 * Q, 1)])})
    prog = {'world': 'cross', 'target': target, 'callers': callers}
    if target in ('idle', 'running') and rng.random() < 0.35:
        # a second phase on the SAME target loop, in the other state: state left behind by phase 1 (registries, locks) matters
        t2 = 'running' if target == 'idle' else _w(rng, [('idle', 1), ('running', 1)])
        c2 = []
        for _ in range(_w(rng, [(1, 3), (2, 3)])):
            c2.append({'fn': 'ensure_aw', 'kind': _w(rng, [('coro', 5), ('future', 2), ('task', 2), ('object', 2)]),
                       'out': _w(rng, [('return', 7), ('raise', 3), ('raise_base', 1), ('raise_cancelled', 1)]),
                       'delay': _w(rng, [(0.0, 4), (Q, 3), (4 * Q, 2)]), 'start': _w(rng, [(0.0, 6), (Q, 2)])})
        prog['phase2'] = {'target': t2, 'callers': c2}
    last = prog['phase2']['target'] if prog.get('phase2') else target
    if last == 'running' and rng.random() < 0.35:
        # The stop function of the LAST phase is called by two threads at once: each call may return only once the loop has
        # stopped.  (Only in the last phase: a second stop request that arrives after the loop stopped stays queued in it.)
        prog['stoppers'] = 2
    return prog


class AwaitableObject:
    """A plain object with __await__ (legal under Awaitable[T]): not a coroutine, not a future."""

    def __init__(self, coro):
        self.coro = coro

    def __await__(self):
        return self.coro.__await__()


class CallerState:
    def __init__(self, i, spec):
        self.i = i
        self.spec = spec
        self.outcome = None
        self.state = 'new'
        self.thread = None
        self.ran_on = None
        self.obj = None
        self.exc = None
        self.started = False
        self.t_done = None
        self.phase = 1


class CrossWorld:

    def __init__(self, prog, sch, aa):
        self.prog = prog
        self.sch = sch
        self.aa = aa
        self.cs = [CallerState(i, c) for i, c in enumerate(prog['callers'])]
        self.phase = 1
        for c in (prog.get('phase2') or {}).get('callers', ()):
            C = CallerState(len(self.cs), c)
            C.phase = 2
            self.cs.append(C)
        self.violations = []
        self.harness_errors = []
        self.end = None
        self.target = None
        self.aws = {}

    def viol(self, oracle, sig, detail, **features):
        self.violations.append({'property': 'C17', 'oracle': oracle, 'signature': sig, 'detail': detail,
                                'features': features, 'step': self.sch.step, 't': self.sch.clock})
        self.sch.log('VIOL', oracle)

    # ------------------------------------------------------------ awaitables
    async def body(self, C):
        C.started = True
        try:
            C.ran_on = asyncio.get_running_loop()
        except RuntimeError:
            C.ran_on = None
        d = C.spec['delay']
        if d:
            await asyncio.sleep(d)
        else:
            await asyncio.sleep(0)
        if C.spec['out'] in ('raise', 'raise_base'):
            C.exc = (AwBaseError if C.spec['out'] == 'raise_base' else AwError)(C.i)
            raise C.exc
        if C.spec['out'] == 'raise_cancelled':
            C.exc = asyncio.CancelledError(C.i)
            raise C.exc
        C.obj = ('res', C.i)
        return C.obj

    def resolve_future(self, C, fut):
        C.started = True
        C.ran_on = fut.get_loop()
        if fut.done():
            return
        if C.spec['out'] == 'raise_cancelled':
            C.exc = asyncio.CancelledError(C.i)
            fut.cancel()
        elif C.spec['out'] in ('raise', 'raise_base'):
            C.exc = (AwBaseError if C.spec['out'] == 'raise_base' else AwError)(C.i)
            fut.set_exception(C.exc)
        else:
            C.obj = ('res', C.i)
            fut.set_result(C.obj)

    def make_aw(self, C, loop):
        kind = C.spec['kind']
        if kind == 'coro':
            return self.body(C)
        if kind == 'object':
            return AwaitableObject(self.body(C))
        if kind == 'task':
            return loop.create_task(self.body(C))
        fut = loop.create_future()
        loop.call_later(C.spec['delay'], self.resolve_future, C, fut)
        return fut

    # --------------------------------------------------------------- callers
    async def caller_main(self, C, own_loop):
        sch = self.sch
        spec = C.spec
        if spec['start']:
            await asyncio.sleep(spec['start'])
        tgt = own_loop if self.tstate() == 'own' else self.target
        if self.tstate() == 'own':
            aw = self.make_aw(C, own_loop)
        elif spec['kind'] == 'coro':
            aw = self.body(C)
        elif spec['kind'] == 'object':
            aw = AwaitableObject(self.body(C))
        else:
            aw = self.aws[C.i]
        fn = getattr(self.aa, spec['fn'])
        C.state = 'called'
        sch.log('call', C.i, spec['fn'])
        try:
            r = await fn(aw, tgt)
            C.outcome = ('value', r)
        except BaseException as e:  # noqa
            if isinstance(e, (S.Abort, GeneratorExit)):
                raise
            C.outcome = ('exc', e)
            if spec['kind'] == 'coro' and not C.started:
                aw.close()
            if spec['kind'] == 'object' and not C.started:
                aw.coro.close()
        C.state = 'done'
        C.t_done = sch.clock
        sch.log('ret', C.i, C.outcome[0])

    def caller_thread(self, C):
        C.thread = self.sch.me().idx
        try:
            loop = SimLoop()
            asyncio.set_event_loop(loop)
            loop.run_until_complete(self.caller_main(C, loop))
            loop.close()
            asyncio.set_event_loop(None)
        except S.Abort:
            raise
        except BaseException as e:  # noqa
            self.harness_errors.append(f'caller {C.i}: {type(e).__name__}: {e}')

    def tstate(self):
        return self.prog['target'] if self.phase == 1 else self.prog['phase2']['target']

    def run_phase(self, tstate, cs):
        sch = self.sch
        aa = self.aa
        stop = None
        if tstate != 'own':
            if self.target is None:
                self.target = SimLoop()
            for C in cs:
                if C.spec['kind'] not in ('coro', 'object'):
                    self.aws[C.i] = self.make_aw(C, self.target)
            if tstate == 'closed':
                self.target.close()
            elif tstate == 'running':
                stop = aa.loop_in_thread(self.target)
                if not self.target.is_running():
                    self.viol('loop_in_thread.returned_before_running', 'loop_in_thread returned before the loop was running',
                              f'step {sch.step}')
        ths = [sch.spawn(partial(self.caller_thread, C), f'caller{C.i}') for C in cs]
        sch.join(ths)
        if stop is not None:
            def stop_and_check(who):
                stop()
                if self.target.is_running():
                    self.viol('loop_in_thread.stopper_returned_while_running', 'the stop function returned while the loop still runs',
                              f'step {sch.step} ({who})', concurrent_stoppers=self.prog.get('stoppers', 1))
            last = self.phase == (2 if self.prog.get('phase2') else 1)
            extra = [sch.spawn(partial(stop_and_check, f'stopper thread {k}'), f'stopper{k}')
                     for k in range(1, self.prog.get('stoppers', 1) if last else 1)]
            stop_and_check('main thread')
            sch.join(extra)

    def main(self):
        sch = self.sch
        self.run_phase(self.prog['target'], [C for C in self.cs if C.phase == 1])
        if self.prog.get('phase2'):
            self.phase = 2
            sch.log('phase2')
            self.run_phase(self.prog['phase2']['target'], [C for C in self.cs if C.phase == 2])
        self.sch.seams.shutdown_pools()

    # ----------------------------------------------------------------- judge
    def judge(self, probe_log):
        sch = self.sch
        tstate = self.tstate()
        for e in self.harness_errors:
            self.violations.append({'property': 'HARNESS', 'oracle': 'harness.error', 'signature': 'harness error',
                                    'detail': e, 'features': {}})
        if self.end in ('quiescent', 'livelock'):
            stuck = [C for C in self.cs if C.state == 'called']
            if stuck:
                C = stuck[0]
                branch = 'none'
                for name, tid in probe_log:
                    if tid == C.thread and name in ('ensure_aw.threadsafe_branch', 'ensure_aw.idle_path', 'ensure_aw.own_loop'):
                        branch = name.split('.')[1]
                helpers = sum(1 for name, tid in probe_log if name == 'ensure_aw.idle_path')
                self.viol('ensure_aw.hang', 'a cross-loop await never completes although its awaitable can',
                          f'caller {C.i} ({C.spec["fn"]} {C.spec["kind"]}, delay {C.spec["delay"]}) on target "{tstate}" still '
                          f'(phase {C.phase} of {2 if self.prog.get("phase2") else 1}) '
                          f'pending; run ended {self.end} at t={sch.clock}; it took branch "{branch}"; awaitable started='
                          f'{C.started}; {helpers} caller(s) ran the target in a helper thread',
                          target=tstate, stuck_branch=branch, concurrent_callers=len(self.cs) >= 2,
                          other_ran_helper=helpers >= 1, fn=C.spec['fn'])
            else:
                self.violations.append({'property': 'HARNESS', 'oracle': 'harness.' + self.end, 'signature': 'unexpected end',
                                        'detail': repr([repr(t) for t in sch.threads]), 'features': {}})
        elif self.end != 'normal':
            self.violations.append({'property': 'HARNESS', 'oracle': 'harness.' + str(self.end), 'signature': 'unexpected end',
                                    'detail': str(self.end), 'features': {}})
        for C in self.cs:
            if C.outcome is None:
                continue
            o = C.outcome
            tstate = self.prog['target'] if C.phase == 1 else self.prog['phase2']['target']
            if tstate == 'closed':
                if not (o[0] == 'exc' and isinstance(o[1], RuntimeError)):
                    self.viol('ensure_aw.closed_target', 'a closed target did not raise RuntimeError',
                              f'caller {C.i} got {o[0]} {o[1]!r}')
                continue
            exp_loop = None if tstate == 'own' else self.target
            if C.spec['out'] == 'return':
                if not (o[0] == 'value' and o[1] is C.obj and C.obj is not None):
                    self.viol('ensure_aw.wrong_result', "caller did not get the awaitable's result",
                              f'caller {C.i} ({C.spec["fn"]} {C.spec["kind"]}) expected {C.obj!r}, got {o[0]} {o[1]!r}', target=tstate)
            elif C.spec['out'] == 'raise_cancelled':
                # asyncio re-creates CancelledError objects when it copies future state: the type is what is promised
                if not (o[0] == 'exc' and isinstance(o[1], asyncio.CancelledError)):
                    self.viol('ensure_aw.wrong_result', "caller did not get the awaitable's CancelledError",
                              f'caller {C.i} ({C.spec["fn"]} {C.spec["kind"]}) got {o[0]} {o[1]!r}', target=tstate)
            else:
                if not (o[0] == 'exc' and o[1] is C.exc and C.exc is not None):
                    self.viol('ensure_aw.wrong_result', "caller did not get the awaitable's exception",
                              f'caller {C.i} ({C.spec["fn"]} {C.spec["kind"]}) expected {C.exc!r}, got {o[0]} {o[1]!r}', target=tstate)
            if exp_loop is not None and C.started and C.ran_on is not exp_loop:
                self.viol('ensure_aw.wrong_loop', 'the awaitable was not evaluated on the target loop',
                          f'caller {C.i}: ran on {C.ran_on!r}, target {exp_loop!r}')
        for L in sch.loops:
            if L.double_run:
                self.viol('loop.run_by_two_threads', 'an event loop was entered by a second thread while running',
                          f'{L!r}: {L.double_run} attempt(s)', target=tstate)


_probe_cache = {}


def execute(prog, sspec, keep_log=False):
    aa, _ = env.aiuti()
    pl = _probe_cache.get(aa.__file__)
    if pl is None:
        pl = _probe_cache[aa.__file__] = build_probes(aa.__file__)
    sch = S.Sched(seed=sspec.get('seed', 0), strategy=sspec.get('strategy', ('sticky', 0.1)),
                  switches=sspec.get('switches'), strict=sspec.get('strict', True),
                  step_cap=30_000, trace_files=(aa.__file__,), keep_log=keep_log)
    sch.set_probes({aa.__file__: pl[0]})
    sch.probe_log = []
    sch.log('prog', json.dumps(prog, sort_keys=True))
    w = CrossWorld(prog, sch, aa)
    seams = AsyncioSeams(aa).install()
    sch.seams = seams
    install_policy()
    try:
        try:
            sch.run(w.main)
            w.end = 'normal'
        except S.Quiescent:
            w.end = 'quiescent'
        except S.StepCap as e:
            w.end = 'livelock' if e.clock_stuck else 'stepcap'
        except S.ReplayDiverged as e:
            w.end = 'diverged'
            w.harness_errors.append(f'REPLAY-DIVERGED {e}')
    finally:
        restore_policy()
        seams.restore()
    w.judge(sch.probe_log)
    for L in sch.loops:
        if not L.is_closed() and not L.is_running():
            try:
                L.close()
            except Exception:
                pass
    return {'end': w.end, 'violations': w.violations, 'digest': sch.digest(), 'steps': sch.step, 'vtime': sch.clock,
            'switches': [list(x) for x in sch.switch_log], 'nswitch': sch.nswitch, 'nswitch_traced': sch.nswitch_traced,
            'edges': sch.edges, 'faults': {'target.' + prog['target']: 1},
            'probes': dict(sch.probe_hits), 'unmapped_probes': pl[1], 'leaked': sch.leaked,
            'nontrivial': sch.nswitch_traced > 0, 'log': sch.log_list if keep_log else None,
            'outcomes': [(C.i, C.outcome[0] if C.outcome else None) for C in w.cs]}
