"""C20 — gather_excs / raise_first_exc (see DESIGN.md 3.20)."""
import json
import random

from ..worlds import gatherworld as gw

PROPERTY = 'C20'
LEVEL = 'exploration'
DESIGN_REF = '3.20'
CHUNK = 2000
RULE = ('programs of 0..5 awaitables (coroutine / task / future), each returning or raising one of {Base, Sub(Base), Unrelated, '
        'a BaseException-only class, CancelledError raised by the awaitable itself} after a delay from a dyadic grid, so the '
        'finishing order ranges over the permutations of input order; `only` over {default, BaseException, Exception, Base, Sub, '
        'Unrelated, BaseOnly}; gather_excs and raise_first_exc. The spaces for 1 and 2 awaitables (quick) and 3 (thorough) are '
        'enumerated completely (3 kinds x 6 outcomes x 3 delays per awaitable x 7 filters x 2 entry points); 0..5 are sampled. '
        'Oracle: yielded exceptions are exactly the failures that are instances of `only`, in input order, same objects; every '
        'awaitable completed before the first yield and none was cancelled; raise_first_exc raises the first of them or returns '
        'None. non-trivial = >=2 awaitables; distinct by run digest.')
LEVEL_TEXT = ('Virtual-time simulation of the awaitables with a delay grid that realises every finishing order; small spaces are '
              'swept completely, larger ones sampled. The run-to-completion clause is observed through per-awaitable completion '
              'logs taken in virtual time.')
LEVEL_NOTE = 'Trusted: CPython 3.12.1 asyncio.gather; a CancelledError raised by an awaitable is compared by type, not identity.'
TECHNIQUE = 'deterministic simulation: virtual-time event loop, delay-grid enumeration of finishing orders, history oracle'
REAL = ['aiuti.asyncio.gather_excs / raise_first_exc (unmodified source)', 'asyncio.gather, Task/Future, timers (CPython 3.12.1)']
STUB = ['selector / self-pipe', 'loop clock (virtual)', 'the awaitables (harness-owned, scripted)']
ASSUMPTIONS = ['CPython 3.12.1 only', 'single loop: the schedule is the timed program']


def batches(tier):
    b = [{'name': 'enum1', 'n': gw.enum_size(1), 'profile': 'enum1'},
         {'name': 'enum2', 'n': gw.enum_size(2), 'profile': 'enum2'}]
    if tier == 'thorough':
        b.append({'name': 'enum3', 'n': gw.enum_size(3), 'profile': 'enum3'})
    b.append({'name': 'random', 'n': 40000 if tier == 'quick' else 2000000, 'profile': 'random'})
    return b


def make_case(batch, seed):
    return {'prog': gw.gen_program(random.Random(seed), batch['profile'], batch.get('index')), 'sched': {}}


def run_case(case):
    return gw.execute(case['prog'])


def shrink(case):
    aws = case['prog']['aws']
    for i in range(len(aws)):
        c = json.loads(json.dumps(case))
        del c['prog']['aws'][i]
        yield c
    for i, a in enumerate(aws):
        for k, v in (('kind', 'coro'), ('delay', 0.0), ('out', 'return')):
            if a[k] != v:
                c = json.loads(json.dumps(case))
                c['prog']['aws'][i][k] = v
                yield c


def extra_evidence(agg):
    return {'exhaustive_sub_batches': 'enum1, enum2 (and enum3 in the thorough tier) enumerate their spaces completely'}
