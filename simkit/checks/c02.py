"""C02 — FileLock mutual exclusion (see DESIGN.md 3.2)."""
import json
import random

from .. import sched as S
from ..worlds import flworld as fw
from ..worlds import procworld as pw

PROPERTY = 'C02'
LEVEL = 'exploration'
DESIGN_REF = '3.2'
CHUNK = 250
RULE = ('(a) threads: 2-4 sim threads over 1-2 FileLock objects on one path (real kernel flock on tmpfs, real Lock/RLock objects, virtual '
        'clock), each doing 1-3 rounds through acquire() / acquire_ctx() / with, blocking / blocking=False / timed at the call site, '
        'constructor time-out in {-1, 0, 0.25}, reentrant nesting depth 1-3, hold times on a grid around the time-outs (incl. a holder that releases at exactly the instant a waiter\'s deadline expires), innermost blocks that raise and are handled inside the outer section; pre-emption at '
        'every line of aiuti/filelock.py and inside the critical section. A thread enters the harness-owned critical section only if its '
        'acquire reported success; invariant: at most one thread inside per lock file at every step (reentrant nesting counts once), '
        'is_locked true inside, no deadlock, nothing left locked. (b) processes: see the process batches (stepped children over pipes); in a quarter of those programs most children use one FileLock object that their living parent made and already used before fork(). '
        'non-trivial = >=1 cross-thread switch inside traced code; distinct by run digest.')
LEVEL_TEXT = ('Seeded search over acquisition styles x time-outs x line-level interleavings against the real kernel lock; overlap is an '
              'in-run invariant of a harness-owned critical section, so it is observed, not inferred from is_locked.')
LEVEL_NOTE = ('Trusted: Linux flock semantics on tmpfs; the shims keep the real lock objects and only replace blocking by try-else-park. '
              'Free-running multi-process contention is a smoke test only (its schedule is not controlled); the stepped runs decide.')
TECHNIQUE = 'deterministic simulation: seeded thread scheduler with line-level pre-emption over real flock, occupancy invariant; lock-stepped child processes'
REAL = ['aiuti.filelock (unmodified source, line-traced)', 'kernel flock / open / close', 'threading.Lock / RLock objects',
        'real OS threads (one runs at a time)', 'real child processes (process batches)']
STUB = ['time.time / time.sleep (virtual)', 'blocking part of Lock.acquire and flock', 'thread / process scheduling']
ASSUMPTIONS = ['Linux; CPython 3.12.1', 'a thread nests acquires only on a reentrant lock (a non-reentrant one self-deadlocks by design)',
               'sampling, not enumeration']


def batches(tier):
    k = 1 if tier == 'quick' else 40
    return [{'name': 'threads', 'n': 16000 * k, 'profile': 'conc'},
            {'name': 'processes', 'n': 1200 * k, 'profile': 'proc', 'chunk': 40}]


def make_case(batch, seed):
    rng = random.Random(seed)
    if batch['profile'] == 'proc':
        return {'prog': pw.gen_contend_program(rng, 'proc'), 'sched': {'seed': seed}}
    prog = fw.gen_conc_program(rng, batch['profile'])
    return {'prog': prog, 'sched': {'seed': seed, 'strategy': list(S.pick_strategy(rng))}}


def run_case(case):
    if case['prog']['world'] == 'proc-contend':
        return pw.execute_contend(case['prog'], case.get('sched') or {})
    return fw.execute_conc(case['prog'], case.get('sched') or {})


def shrink(case):
    p = case['prog']
    if p['world'] == 'proc-contend':
        if len(p['scripts']) > 2:
            for i in range(len(p['scripts'])):
                c = json.loads(json.dumps(case))
                del c['prog']['scripts'][i]
                yield c
        return
    if len(p['threads']) > 2:
        for i in range(len(p['threads'])):
            c = json.loads(json.dumps(case))
            del c['prog']['threads'][i]
            yield c
    for i, t in enumerate(p['threads']):
        if len(t['rounds']) > 1:
            for j in range(len(t['rounds'])):
                c = json.loads(json.dumps(case))
                del c['prog']['threads'][i]['rounds'][j]
                yield c
        if t['start']:
            c = json.loads(json.dumps(case))
            c['prog']['threads'][i]['start'] = 0.0
            yield c
        for j, r in enumerate(t['rounds']):
            for k, v in (('nest', 1), ('hold', 0.0), ('yields', 1)):
                if r[k] != v:
                    c = json.loads(json.dumps(case))
                    c['prog']['threads'][i]['rounds'][j][k] = v
                    yield c
    if p['nobj'] == 2:
        c = json.loads(json.dumps(case))
        c['prog']['nobj'] = 1
        for t in c['prog']['threads']:
            for r in t['rounds']:
                r['obj'] = 0
        yield c


def _free_child(path, marker, rounds, wfd):
    import os
    from .. import env
    _, fl = env.aiuti()
    bad = 0
    lock = fl.FileLock(path)
    for _ in range(rounds):
        with lock:
            try:
                fd = os.open(marker, os.O_CREAT | os.O_EXCL | os.O_WRONLY)
            except FileExistsError:
                bad += 1
                continue
            os.close(fd)
            os.unlink(marker)
    os.write(wfd, bytes([min(bad, 255)]))
    os._exit(0)


def free_running_smoke(nproc=16, rounds=600):
    """Up to 16 real processes contend freely (no stepping).  Smoke test of the unshimmed code path: its
    schedule is the OS's, so it decides nothing; an overlap seen here is reported as a harness-class error."""
    import os
    import time
    from ..worlds import flworld
    path = flworld.fresh_path()
    marker = path + '.marker'
    t0 = time.time()
    kids = []
    for _ in range(nproc):
        r, w = os.pipe()
        pid = os.fork()
        if pid == 0:
            os.close(r)
            _free_child(path, marker, rounds, w)
        os.close(w)
        kids.append((pid, r))
    bad = 0
    for pid, r in kids:
        b = os.read(r, 1)
        os.close(r)
        os.waitpid(pid, 0)
        bad += b[0] if b else 1
    for p in (path, marker):
        try:
            os.unlink(p)
        except OSError:
            pass
    return {'processes': nproc, 'rounds_each': rounds, 'overlaps_seen': bad, 'wall_s': round(time.time() - t0, 2)}


def extra_evidence(agg):
    smoke = free_running_smoke()
    out = {'free_running_smoke': dict(smoke, note='uncontrolled OS schedule: a smoke test of the unshimmed path, not a deciding step')}
    if smoke['overlaps_seen']:
        out['__errors__'] = [f'free-running smoke saw {smoke["overlaps_seen"]} overlapping critical sections (not replayable)']
    return out
