"""C08 — see DESIGN.md 3.8."""
from . import _buffer
from ._buffer import REAL, STUB, ASSUMPTIONS, shrink  # noqa
from ..worlds import bufferworld as bw

PROPERTY = 'C08'
LEVEL = 'exploration'
RULE = 'each run = 1..8 immediately available submissions (plain calls, lists, delay-free one-shot iterators) at gaps on a dyadic grid containing 0, just below / at / just above the timeout and multiples, timeouts {0.125, 1}, function durations 0 / <T / >T, function failures, wait(cancel=False) allowed, one final wait(cancel=True) ends the judged interval. Oracles in exact virtual time: invocations never overlap, never get an empty set, never start less than T after the latest earlier submission; every maximal burst (gaps < T, not adjacent to an exact tie) that arrives and goes quiet while the function is idle produces exactly one call at last+T containing the whole burst. distinct by run digest.'
LEVEL_TEXT = 'Seeded exploration of arrival-time sequences in exact virtual time (dyadic instants, ties detected exactly and not judged); the debounce claims become comparisons between recorded submission and invocation instants.'
LEVEL_NOTE = 'Trusted: as C03; clauses are deliberately weaker than a full timing model of the implementation (behaviour while the function runs is constrained only by the first three clauses).'
TECHNIQUE = 'deterministic simulation: virtual-time event loop, arrival-grid exploration, debounce history invariants'
CHUNK = 200
DESIGN_REF = '3.8'
PROFILES = [('c08-nofail', 8000), ('c08', 12000), ('c08-flush', 8000)]


def batches(tier):
    k = 1 if tier == 'quick' else 40
    return [{'name': n, 'n': c * k, 'profile': n} for n, c in PROFILES]


def make_case(batch, seed):
    return _buffer.make_case(batch['profile'], seed, batch.get('index'))


def run_case(case):
    return bw.execute(case['prog'], case.get('sched') or {}, props=('C08',))
