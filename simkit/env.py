"""
simkit.env — process-level set-up shared by all worlds: import Aiuti from the tree under
test, silence logging/warnings (they must never touch a PRNG or a clock, and they format
tracebacks, which is slow), keep the cyclic GC out of runs.
"""

import gc
import os
import sys
import logging
import warnings
import contextlib

REPO = os.environ.get('AIUTI_REPO', '/repo')

_imported = {}


def aiuti():
    """Import (once) and return (aiuti.asyncio, aiuti.filelock) from REPO's working tree."""
    if not _imported:
        if sys.path[0] != REPO:
            sys.path.insert(0, REPO)
        import aiuti
        import aiuti.asyncio as aa
        import aiuti.filelock as fl
        assert os.path.realpath(aiuti.__file__).startswith(os.path.realpath(REPO) + os.sep), \
            (aiuti.__file__, REPO)
        _imported['aa'] = aa
        _imported['fl'] = fl
    return _imported['aa'], _imported['fl']


def aiuti_files():
    aa, fl = aiuti()
    return aa.__file__, fl.__file__


def process_setup():
    logging.disable(logging.CRITICAL)
    warnings.simplefilter('ignore')
    sys.unraisablehook = lambda *a: None
    gc.disable()
    gc.freeze()
    from . import detorder
    detorder.install()


_runs_since_gc = [0]


def between_runs(every=40):
    """Collect cycles outside any run (CUR is None, so shims never block)."""
    _runs_since_gc[0] += 1
    if _runs_since_gc[0] >= every:
        _runs_since_gc[0] = 0
        gc.collect()
