"""
simkit.sched — seeded baton scheduler over real threads, with a virtual clock.

Exactly one *sim thread* runs at any time (it holds the baton); every other sim
thread is parked on its private semaphore.  A thread gives the scheduler the
chance to move the baton at a *yield point*: a ``line`` trace event inside one of
the traced source files, or an explicit call from a shim (lock acquire, selector
select, queue get, ...).  Which thread continues is decided by the per-run
strategy from one PRNG, or — in replay — by the recorded list of switches.

The virtual clock advances only when nothing is runnable: it jumps to the
smallest ``wake_at`` of the blocked threads.  If nothing is runnable and no
thread has a wake-up time the run is *quiescent*; the scheduler then resumes sim
thread 0 (the thread that called :meth:`Sched.run`) with :class:`Quiescent`.

Thread 0 is the calling thread itself.  In multi-thread worlds it runs harness
code only (spawn + join); in single-loop worlds it runs the loop directly and no
real thread is ever created.
"""

import sys
import random
import hashlib
import threading
from threading import get_ident

READY, BLOCKED, DONE = 0, 1, 2

#: scheduler of the run in progress in this process (one run at a time)
CUR = None


class Abort(BaseException):
    """Raised in sim thread 0 to end a run early."""


class Quiescent(Abort):
    """Nothing runnable, nothing timed: normal end of a server-like run or a deadlock."""


class StepCap(Abort):
    """Step cap exceeded (``clock_stuck`` says whether virtual time still advanced)."""

    def __init__(self, clock_stuck):
        super().__init__(clock_stuck)
        self.clock_stuck = clock_stuck


class ReplayDiverged(Abort):
    """A forced choice of a strict replay was not runnable."""


class SimThread:
    __slots__ = ('idx', 'name', 'sem', 'state', 'pred', 'wake_at', 'thread',
                 'prio', 'exc', 'fn', 'line', 'what')

    def __init__(self, idx, name, fn=None):
        self.idx = idx
        self.name = name
        self.sem = threading.Semaphore(0)
        self.state = READY
        self.pred = None
        self.wake_at = None
        self.thread = None
        self.prio = 0.0
        self.exc = None
        self.fn = fn
        self.line = 0
        self.what = ''

    def __repr__(self):
        return f'<T{self.idx} {self.name} {("READY", "BLOCKED", "DONE")[self.state]} {self.what}>'


def make_strategy(spec):
    """spec: ['uniform'] | ['sticky', p] | ['pct', d, horizon]"""
    return tuple(spec)


STRATEGIES = (
    ('sticky', 0.02), ('sticky', 0.02), ('sticky', 0.1), ('sticky', 0.1), ('sticky', 0.3),
    ('uniform',),
    ('pct', 1, 300), ('pct', 2, 300), ('pct', 2, 1500), ('pct', 3, 1500), ('pct', 3, 300),
)


def pick_strategy(rng):
    return STRATEGIES[rng.randrange(len(STRATEGIES))]


class Sched:

    def __init__(self, seed=0, strategy=('sticky', 0.1), switches=None, strict=True,
                 step_cap=200_000, trace_files=(), keep_log=False):
        self.rng = random.Random(seed)
        self.strategy = tuple(strategy)
        self.kind = self.strategy[0]
        self.p = self.strategy[1] if self.kind == 'sticky' else 0.0
        self.replay = None
        if switches is not None:
            self.replay = {int(s): int(t) for s, t in switches}
            self.kind = 'replay'
        self.strict = strict
        self.step_cap = step_cap
        self.trace_files = frozenset(trace_files)
        self._code_cache = {}

        self.clock = 0.0
        self.step = 0
        self.threads = []
        self.by_ident = {}
        self.cur = None
        self.abort = None
        self.switch_log = []          # deviations from the default policy: (step, tid)
        self.nswitch = 0              # actual baton moves
        self.nswitch_traced = 0       # ... that happened at a traced line event
        self.edges = set()            # (line left, line entered) of cross-thread switches
        self.n_advance = 0
        self.last_advance_step = 0
        self.on_advance = None        # hook(old, new) called before the clock jumps
        self.at_step = {}             # step -> callable (fault plan)
        self.fired = []               # log of fired step-faults
        self.keep_log = keep_log
        self.log_list = []
        self._h = hashlib.blake2b(digest_size=16)
        self.leaked = 0
        self._in_hook = False
        self.probes = {}
        self.probe_hits = {}
        self.probe_log = None         # optional [(probe name, thread idx)] in order
        self.loops = []               # every SimLoop created during the run (strong refs)
        if self.kind == 'pct':
            d, horizon = self.strategy[1], self.strategy[2]
            self.pct_points = set(self.rng.randrange(1, horizon) for _ in range(d))
            self.pct_low = 0.0
        else:
            self.pct_points = ()

    # ------------------------------------------------------------------ log
    def log(self, *ev):
        """Record an event in the run's digest.  Never draws from a PRNG or clock."""
        self._h.update(repr(ev).encode())
        if self.keep_log:
            self.log_list.append((self.step, self.cur.idx if self.cur else -1) + ev)

    def digest(self):
        h = self._h.copy()
        h.update(repr((self.step, self.clock, self.nswitch)).encode())
        return h.hexdigest()

    # -------------------------------------------------------------- threads
    def run(self, main):
        """Run ``main()`` as sim thread 0 in the calling thread."""
        global CUR
        t0 = SimThread(0, 'main')
        t0.thread = threading.current_thread()
        t0.prio = self.rng.random() if self.kind == 'pct' else 0.0
        self.threads.append(t0)
        self.by_ident[get_ident()] = t0
        self.cur = t0
        CUR = self
        old = sys.gettrace()
        if self.trace_files:
            sys.settrace(self._gtrace)
        try:
            return main()
        finally:
            sys.settrace(old)
            CUR = None
            t0.state = DONE
            self.leaked = sum(1 for t in self.threads[1:] if t.state != DONE)

    def spawn(self, fn, name='t'):
        """Create a sim thread; it becomes runnable at once but does not run yet."""
        t = SimThread(len(self.threads), name, fn)
        if self.kind == 'pct':
            t.prio = self.rng.random()
        self.threads.append(t)
        th = threading.Thread(target=self._boot, args=(t,), daemon=True,
                              name=f'sim-{t.idx}-{name}')
        t.thread = th
        th.start()
        self.log('spawn', t.idx, name)
        return t

    def _boot(self, t):
        t.sem.acquire()                 # wait for the baton
        self.by_ident[get_ident()] = t
        if self.trace_files:
            sys.settrace(self._gtrace)
        try:
            t.fn()
        except Abort:
            pass
        except BaseException as e:  # noqa
            t.exc = e
            self.log('thread-exc', t.idx, type(e).__name__)
        finally:
            sys.settrace(None)
            self._finish(t)

    def _finish(self, me):
        me.state = DONE
        me.what = 'done'
        self.step += 1
        self.log('done', me.idx)
        nxt = self._pick(None)
        if nxt is None:
            self._quiesce(me, park=False)
            return
        self.cur = nxt
        self.nswitch += 1
        nxt.sem.release()

    def me(self):
        return self.by_ident.get(get_ident())

    def is_sim_thread(self):
        return get_ident() in self.by_ident

    # ------------------------------------------------------------- choosing
    def _runnable(self):
        clock = self.clock
        out = []
        for t in self.threads:
            st = t.state
            if st == READY:
                out.append(t)
            elif st == BLOCKED:
                w = t.wake_at
                if (w is not None and w <= clock) or t.pred():
                    out.append(t)
        return out

    def _pick(self, me, spin=False):
        """Choose the thread to run next (``me`` = caller if it may continue).

        Advances the clock when nothing is runnable.  Returns None at quiescence.
        The *default* choice (the one a replay file need not list) is: stay on the
        caller if it can continue, else the runnable thread created first; from a
        busy-wait (``spin``) it is the first runnable thread other than the caller.
        """
        while True:
            runnable = self._runnable()
            if runnable:
                break
            wakes = [t.wake_at for t in self.threads
                     if t.state == BLOCKED and t.wake_at is not None]
            if not wakes:
                return None
            new = min(wakes)
            if new > self.clock:
                if self.on_advance is not None:
                    self.on_advance(self.clock, new)
                self.log('clock', new)
                self.clock = new
                self.n_advance += 1
                self.last_advance_step = self.step
        stay = me if (me is not None and me in runnable) else None
        default = stay if stay is not None else runnable[0]
        if spin and stay is not None and len(runnable) > 1:
            default = runnable[0] if runnable[0] is not stay else runnable[1]
            stay = None
        s = self.step
        if self.replay is not None:
            tid = self.replay.get(s)
            if tid is not None:
                t = self.threads[tid] if 0 <= tid < len(self.threads) else None
                if t is not None and t in runnable:
                    if t is not default:
                        self.switch_log.append((s, t.idx))
                    return t
                if self.strict:
                    self._raise_abort(ReplayDiverged(f'step {s}: thread {tid} not runnable'))
            return default
        kind = self.kind
        if len(runnable) == 1:
            t = runnable[0]
        elif kind == 'sticky':
            if stay is not None and self.rng.random() >= self.p:
                t = stay
            else:
                others = [x for x in runnable if x is not stay and not (spin and x is me)]
                t = others[self.rng.randrange(len(others))]
        elif kind == 'uniform':
            others = [x for x in runnable if not (spin and x is me)]
            t = others[self.rng.randrange(len(others))]
        else:  # pct
            if s in self.pct_points and stay is not None:
                self.pct_low -= 1.0
                stay.prio = self.pct_low
            t = max(runnable, key=_prio)
        if t is not default:
            self.switch_log.append((s, t.idx))
        return t

    def _raise_abort(self, exc):
        """End the run: raise in thread 0, park everyone else for good."""
        me = self.me()
        self.abort = exc
        self.log('abort', type(exc).__name__)
        if me is None or me.idx == 0:
            raise exc
        t0 = self.threads[0]
        self.cur = t0
        t0.sem.release()
        me.sem.acquire()        # parked for good (leaked daemon thread)
        raise Abort()           # pragma: no cover

    def _quiesce(self, me, park=True):
        exc = Quiescent()
        if me.idx == 0:
            self.abort = exc
            self.log('abort', 'Quiescent')
            raise exc
        t0 = self.threads[0]
        if t0.state == DONE:
            return
        self.abort = exc
        self.log('abort', 'Quiescent')
        self.cur = t0
        t0.sem.release()
        if park:
            me.sem.acquire()    # parked for good

    def _switch(self, me, nxt, traced=False):
        if nxt is me:
            return
        self.cur = nxt
        self.nswitch += 1
        if traced:
            self.nswitch_traced += 1
            self.edges.add((me.line, nxt.line))
        self._h.update(b'%d>%d@%d;' % (me.idx, nxt.idx, self.step))
        nxt.sem.release()
        me.sem.acquire()
        if self.abort is not None:
            if me.idx == 0:
                raise self.abort
            me.sem.acquire()    # pragma: no cover  (never released)

    def _tick(self, me):
        if self.abort is not None and me.idx == 0:
            raise self.abort            # the run is over: thread 0 must not re-enter the scheduler
        s = self.step = self.step + 1
        if self.at_step:
            f = self.at_step.pop(s, None)
            if f is not None:
                # fault-plan hooks are harness code: atomic, no yield point inside them
                self._in_hook = True
                try:
                    f()
                finally:
                    self._in_hook = False
        if s > self.step_cap:
            stuck = (s - self.last_advance_step) > self.step_cap // 2
            self._raise_abort(StepCap(stuck))

    # --------------------------------------------------------- yield points
    def yield_point(self, traced=False):
        me = self.by_ident.get(get_ident())
        if me is None or self._in_hook:
            return
        self._tick(me)
        # fast path: a sticky strategy that stays needs no runnable set
        if self.kind == 'sticky' and len(self.threads) > 1:
            if self.rng.random() >= self.p:
                return
            others = [x for x in self._runnable() if x is not me]
            if not others:
                return
            nxt = others[self.rng.randrange(len(others))]
            self.switch_log.append((self.step, nxt.idx))
            self._switch(me, nxt, traced)
            return
        if len(self.threads) == 1:
            return
        nxt = self._pick(me)
        self._switch(me, nxt, traced)

    def spin_yield(self):
        """Yield from a busy-wait (``sleep(0)``): prefer any other runnable thread."""
        me = self.by_ident.get(get_ident())
        if me is None:
            return
        self._tick(me)
        if self.kind == 'pct':
            self.pct_low -= 1.0
            me.prio = self.pct_low
        nxt = self._pick(me, spin=True)
        self._switch(me, nxt)

    def block(self, pred, wake_at=None, what=''):
        """Park the calling sim thread until ``pred()`` is true or the clock reaches
        ``wake_at``.  Returns True if ``pred()`` holds on return."""
        me = self.by_ident.get(get_ident())
        if me is None:
            raise RuntimeError('block() outside a sim thread')
        self._tick(me)
        me.state = BLOCKED
        me.pred = pred
        me.wake_at = wake_at
        me.what = what
        nxt = self._pick(me)
        if nxt is None:
            self._quiesce(me)
        else:
            self._switch(me, nxt)
        me.state = READY
        me.pred = None
        me.wake_at = None
        me.what = ''
        return pred()

    def sleep(self, d):
        self.block(_never, self.clock + d, 'sleep')

    def join(self, threads):
        ts = list(threads)
        self.block(lambda: all(t.state == DONE for t in ts), None, 'join')

    # --------------------------------------------------------------- traces
    def set_probes(self, probes):
        """probes: {filename: {lineno: name}} — rare-branch counters (reach measure)."""
        self.probes = probes
        self.probe_hits = {}

    def _gtrace(self, frame, event, arg):
        code = frame.f_code
        c = self._code_cache.get(code, 0)
        if c == 0:
            fn = code.co_filename
            c = _ltrace_for(fn) if fn in self.trace_files else None
            self._code_cache[code] = c
        return c


# Local trace functions are module-level and reach the scheduler through CUR only: a
# suspended coroutine frame keeps its f_trace for as long as it lives, and must not keep a
# finished run's scheduler (and everything it references) alive with it.
_LTRACERS = {}


def _ltrace_for(filename):
    f = _LTRACERS.get(filename)
    if f is not None:
        return f

    def ltrace(frame, event, arg):
        if event == 'line':
            s = CUR
            if s is not None:
                me = s.by_ident.get(get_ident())
                if me is not None and s.abort is None:
                    ln = me.line = frame.f_lineno
                    pl = s.probes.get(filename)
                    if pl is not None and ln in pl:
                        n = pl[ln]
                        s.probe_hits[n] = s.probe_hits.get(n, 0) + 1
                        if s.probe_log is not None:
                            s.probe_log.append((n, me.idx))
                    s.yield_point(True)
        return ltrace
    _LTRACERS[filename] = ltrace
    return ltrace


def _prio(t):
    return t.prio


def _never():
    return False
