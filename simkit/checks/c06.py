"""C06 — cache callers see only their own outcome (see DESIGN.md 3.6)."""
from . import _cache
from ._cache import REAL, STUB, ASSUMPTIONS, shrink  # noqa

PROPERTY = 'C06'
LEVEL = 'exploration'
LEVEL_TEXT = "Seeded search over the cache world with every subset of failing invocations, cancelled/timed-out callers and shutting-down loops; each caller's outcome is attributed (invocation ids in exceptions, harness cancel log) and anything not its own is a violation."
LEVEL_NOTE = 'Trusted: as C01; a caller abandoned together with its loop is not judged.'
TECHNIQUE = 'deterministic simulation: outcome attribution oracle under seeded schedules, cancellations and loop shutdowns'
DESIGN_REF = '3.6'
CHUNK = 250
RULE = ('cache world (2-4 threads x own SimLoop, line-level pre-emption in aiuti/asyncio.py) with failing invocations '
        '(any subset of the first 8), caller cancellations and wait_for time-outs at grid instants or at scheduler steps '
        'inside a computation, loop stops, and every life-cycle ending (Runner shutdown / close / leave). Oracle per caller '
        'that finished on a running loop: value of a successful invocation of its key | exception of an invocation its own '
        'task performed | Cancelled/Timeout only if the harness cancelled/timed out that task or shut down its own loop; '
        'plus: the cache mapping only ever holds results of successful invocations. distinct_nontrivial = distinct run '
        'digests among runs with >=1 cross-thread switch in traced code or >=1 fired fault.')
PROBES_EXPECTED = ('cache.waiter_cancel_path', 'cache.cross_loop_wait', 'cache.takeover_dead_loop',
                   'cache.safety_timeout_60')


def batches(tier):
    k = 1 if tier == 'quick' else 40
    return [{'name': 'nofault', 'n': 4000 * k, 'profile': 'c06-nofault'},
            {'name': 'faults', 'n': 20000 * k, 'profile': 'c06'}]


def make_case(batch, seed):
    return _cache.make_case(batch['profile'], seed)


def run_case(case):
    """C06 also owns 'cancelling or timing out one caller never ... delays any other caller beyond a recomputation':
    C05's termination / idle-wait verdicts are reported here when the run cancelled or timed out some caller."""
    r = _cache.run_case(case)
    cancels = any('cancel_at' in c or 'timeout' in c for t in case['prog']['threads'] for c in t['callers']) or \
        any(f['kind'] == 'cancel' for f in case['prog']['faults']) or \
        any(i['out'] in ('raise', 'raise_sync') for i in case['prog']['invs'])      # "... a later call computes afresh"
    if cancels:
        for v in list(r['violations']):
            if v['property'] == 'C05':
                r['violations'].append(dict(v, property='C06', oracle='cache.bystander_delayed:' + v['oracle'].split('.')[-1],
                                            signature='a caller is delayed beyond a recomputation in a run where another caller was cancelled / timed out or a computation failed'))
    return r
