#!/venv/bin/python
"""
Re-run the registered quick checks against stored property-preserving changes (/verif/benign/<id>/patch.diff) and
refresh their meta.json + benign/README.md.  The patch is applied to /repo (git apply), the checks recorded in
meta.json are run with VERIF_OUT in a scratch directory, and the patch is undone straight afterwards.
  benign_recheck.py [ID ...]      (default: every stored change)
"""
import os
import sys
import json
import glob
import shutil
import subprocess
import time

only = sys.argv[1:]


def sh(cmd):
    return subprocess.run(cmd, shell=True, capture_output=True, text=True)


assert sh('git -C /repo status --porcelain').stdout.strip() == '', '/repo not clean'
for d in sorted(glob.glob('/verif/benign/*/')):
    sid = os.path.basename(d.rstrip('/'))
    mp = d + 'meta.json'
    if not os.path.exists(mp) or (only and sid not in only):
        continue
    meta = json.load(open(mp))
    checks = [r['check'] for r in meta['ran']]
    out = f'/tmp/benignout_{sid}'
    r = sh(f'git -C /repo apply {d}patch.diff')
    if r.returncode != 0:
        print(sid, 'PATCH DOES NOT APPLY', r.stderr[:200])
        continue
    ran = []
    try:
        for c in checks:
            t0 = time.time()
            r = sh(f'cd /verif && VERIF_OUT={out} timeout 3000 /venv/bin/python -m simkit.run {c} --tier quick')
            lines = [l for l in r.stdout.split('\n') if l.startswith('VIOLATION') or l.strip().startswith('oracle=')]
            ran.append({'check': c, 'tier': 'quick', 'exit': r.returncode, 'wall_s': round(time.time() - t0, 1),
                        'violation_lines': [l.replace(out, '<scratch>')[:600] for l in lines]})
            print(f'{sid} {c} quick: exit={r.returncode} ({time.time() - t0:.0f}s)')
    finally:
        sh('git -C /repo checkout -- .')
        shutil.rmtree(out, ignore_errors=True)
    meta['ran'] = ran
    meta['rechecked_at_verif_commit'] = sh('git -C /verif rev-parse --short HEAD').stdout.strip()
    meta['silent'] = all(x['exit'] == 0 for x in ran)
    meta['silent_own_property'] = all(x['exit'] == 0 for x in ran if x['check'] == meta['property'])
    json.dump(meta, open(mp, 'w'), indent=1)
assert sh('git -C /repo status --porcelain').stdout.strip() == ''
rows = []
for d in sorted(glob.glob('/verif/benign/*/')):
    if os.path.exists(d + 'meta.json'):
        m = json.load(open(d + 'meta.json'))
        own = [r for r in m['ran'] if r['check'] == m['property']]
        others = [r['check'] for r in m['ran'] if r['exit'] and r['check'] != m['property']]
        rows.append((m['id'], m['property'], m.get('tests_passed_with_change'),
                     'silent' if all(r['exit'] == 0 for r in own) else 'ALARM', ', '.join(others)))
with open('/verif/benign/README.md', 'w') as f:
    f.write('# Property-preserving changes\n\nWritten by fresh sub-agents that were asked to KEEP one property (G = ordinary pull requests: '
            'restructuring / mechanism / incidental detail; R = full rewrites of the mechanism). Each directory: `patch.diff`, the agent\'s '
            '`notes.md` and `check.py`, and `meta.json` (the last evaluation by `tools/benign_eval.py` / `benign_recheck.py`: 42-test suite '
            'with the change, the agent\'s check on both trees, quick tier of every check of the component). The property\'s own check must be '
            'silent. Alarms of neighbouring checks are discussed in DESIGN.md 10.2: the agent only had to preserve its own property, and '
            'every remaining one was confirmed as a real break of the other property.\n\n'
            '| change | property to keep | tests passed | own check | neighbouring checks that alarm (true positives, DESIGN 10.2) |\n'
            '|---|---|---|---|---|\n')
    for r in rows:
        f.write(f'| {r[0]} | {r[1]} | {r[2]} | {r[3]} | {r[4]} |\n')
print('wrote benign/README.md')
