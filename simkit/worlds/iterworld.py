"""
iterworld — to_async_iter / to_sync_iter (C16).

to_async_iter: a consumer thread runs a SimLoop with a consumer task and a ticker task; the source
iterator (harness-owned, virtual per-step delays, failure at any position) is drained by the real
code in a SimPool(1) thread.  to_sync_iter: the consumer is a plain sim thread; Aiuti's pool thread
runs a SimLoop (default new_event_loop() through the policy, or an explicit loop=).
"""

import asyncio
import json

from .. import sched as S
from .. import env
from ..loop import SimLoop, install_policy, restore_policy
from ..shims import AsyncioSeams, SimPool, sim_sleep

Q = 1.0 / 64
VALUES = [None, 0, '', 1, 1, False, 'x', 2]


class SourceError(Exception):
    pass


class SourceRuntimeError(NotImplementedError):
    """A failure from the RuntimeError family (asyncio itself signals many conditions with RuntimeError)."""


class SourceBaseError(BaseException):
    """A failure that is not an Exception subclass (the bridges must not narrow what they forward)."""


def _w(rng, pairs):
    tot = sum(w for _, w in pairs)
    x = rng.random() * tot
    for v, w in pairs:
        x -= w
        if x < 0:
            return v
    return pairs[-1][0]


def gen_program(rng, profile, index=None):
    direction = 'to_async' if rng.random() < 0.6 else 'to_sync'
    if profile.endswith('-async'):
        direction = 'to_async'
    if profile.endswith('-sync'):
        direction = 'to_sync'
    n = rng.randint(0, 6)
    elems = [rng.randrange(len(VALUES)) for _ in range(n)]
    if direction == 'to_async':
        src = _w(rng, [('list', 1), ('range', 1), ('generator', 4), ('iterator', 3), ('iterclass', 3), ('sized_iterclass', 2)])
    else:
        src = 'agen'
    prog = {'world': 'iter', 'dir': direction, 'src': src, 'elems': elems, 'fail_at': None,
            'delays': [0.0] * (n + 1), 'tick': 4 * Q, 'explicit_loop': rng.random() < 0.5,
            'consumer_delay': _w(rng, [(0.0, 6), (Q, 2), (8 * Q, 1), (0.05, 1)])}
    if direction == 'to_sync' and not prog['explicit_loop'] and rng.random() < 0.5:
        prog['then_zip'] = [rng.randint(1, 3), rng.randint(1, 3)]      # later: two to_sync_iter iterations interleaved
    if direction == 'to_sync' and prog['explicit_loop'] and rng.random() < 0.5:
        prog['second_use'] = {'n': rng.randint(0, 3), 'fail': rng.random() < 0.3}   # a 2nd to_sync_iter on the SAME loop
        if n and rng.random() < 0.35:
            # the first iteration is abandoned (break + close) after k elements: what it got is a prefix, and the next
            # complete iteration on the same loop is undisturbed
            prog['abandon_after'] = rng.randint(0, n)
    if src == 'range':
        prog['elems'] = list(range(n))
    if src not in ('list', 'range'):
        if rng.random() < 0.5:
            prog['fail_at'] = rng.randrange(n + 1)
            if rng.random() < 0.4:
                prog['fail_kind'] = rng.choice(['base', 'runtime'])
        # dyadic values plus multiples of 0.05 s (the polling constant this code base uses), so that a producer
        # step can end exactly when a consumer-side poll expires
        prog['delays'] = [_w(rng, [(0.0, 6), (Q, 2), (8 * Q, 2), (24 * Q, 1), (0.05, 2), (0.1, 1), (0.25, 1)]) for _ in range(n + 1)]
    return prog


class IterClass:
    """A hand-written iterator (not a generator)."""

    def __init__(self, world):
        self.w = world
        self.j = 0

    def __iter__(self):
        return self

    def __next__(self):
        v = self.w.step_source(self.j)
        self.j += 1
        return v


class SizedIterClass(IterClass):
    """An iterator that also knows its length (a paginated result set, say)."""

    def __len__(self):
        return len(self.w.values)


class IterWorld:

    def __init__(self, prog, sch, aa):
        self.prog = prog
        self.sch = sch
        self.aa = aa
        self.violations = []
        self.values = [VALUES[i] if prog['src'] != 'range' else i for i in prog['elems']]
        self.produced = 0
        self.exc = None
        self.got = []
        self.terminal = None
        self.ticks = []
        self.end = None
        self.harness_errors = []
        self.src_threads = set()
        self.consumer_thread = None
        self.finished = False
        self.src_loop = None
        self.blocked_in_source = False
        self.max_gap_while_waiting = 0.0
        self.phase2 = False
        self.abandoned = False

    def viol(self, oracle, sig, detail, **features):
        self.violations.append({'property': 'C16', 'oracle': oracle, 'signature': sig, 'detail': detail,
                                'features': features, 'step': self.sch.step, 't': self.sch.clock})

    # ----------------------------------------------------------------- source
    def step_source(self, j):
        """Blocking (virtual) production of element j; raises at fail_at / StopIteration at the end."""
        p = self.prog
        me = self.sch.me()
        self.src_threads.add(me.idx if me else -1)
        d = p['delays'][j]
        if d:
            self.blocked_in_source = True
            sim_sleep(d)
            self.blocked_in_source = False
        if p['fail_at'] == j:
            self.exc = {'base': SourceBaseError, 'runtime': SourceRuntimeError}.get(p.get('fail_kind'), SourceError)(j)
            raise self.exc
        if j >= len(self.values):
            raise StopIteration
        self.produced += 1
        return self.values[j]

    def gen_source(self):
        j = 0
        while True:
            try:
                v = self.step_source(j)
            except StopIteration:
                return
            yield v
            j += 1

    async def agen_source(self):
        p = self.prog
        self.src_loop = asyncio.get_running_loop()
        me = self.sch.me()
        self.src_threads.add(me.idx if me else -1)
        for j in range(len(self.values) + 1):
            d = p['delays'][j]
            if d:
                await asyncio.sleep(d)
            if p['fail_at'] == j:
                self.exc = {'base': SourceBaseError, 'runtime': SourceRuntimeError}.get(p.get('fail_kind'), SourceError)(j)
                raise self.exc
            if j < len(self.values):
                self.produced += 1
                yield self.values[j]

    def make_source(self):
        s = self.prog['src']
        if s == 'list':
            return list(self.values)
        if s == 'range':
            return range(len(self.values))
        if s == 'generator':
            return self.gen_source()
        if s == 'iterator':
            return iter(self.gen_source())
        if s == 'iterclass':
            return IterClass(self)
        if s == 'sized_iterclass':
            return SizedIterClass(self)
        raise ValueError(s)

    # --------------------------------------------------------------- to_async
    async def ticker(self):
        # The ticker observes that the loop stays responsive.  It gives up a generous while after every producer step and
        # consumer pause could have happened: if the consumer is still pending then, nothing else keeps the loop busy, the run
        # goes quiescent and is judged a hang (a ticker that ticks for ever would only turn a hang into a step-cap).
        horizon = 60.0 + 4 * (sum(self.prog['delays']) + (len(self.prog['elems']) + 2) * (self.prog['consumer_delay'] + 1.0))
        while not self.finished and self.sch.clock < horizon:
            self.ticks.append(self.sch.clock)
            await asyncio.sleep(self.prog['tick'])

    async def consume_async(self):
        loop = asyncio.get_running_loop()
        tk = loop.create_task(self.ticker())
        await asyncio.sleep(0)
        it = self.aa.to_async_iter(self.make_source())
        try:
            async for x in it:
                self.got.append(x)
                self.sch.log('got', repr(x))
                if self.prog['consumer_delay']:
                    await asyncio.sleep(self.prog['consumer_delay'])
            self.terminal = 'stop'
        except BaseException as e:  # noqa
            self.terminal = e
        # one more pull must say StopAsyncIteration
        try:
            await it.__anext__()
            self.viol('iter.not_exhausted', 'iterator yields after its end', 'extra element after termination')
        except StopAsyncIteration:
            pass
        except BaseException as e:  # noqa
            if e is not self.terminal:
                self.viol('iter.not_exhausted', 'iterator raises again after its end', repr(e))
        self.t_end = self.sch.clock
        self.finished = True
        self.check_helpers('to_async_iter')
        tk.cancel()

    def consumer_async(self):
        self.consumer_thread = self.sch.me().idx
        try:
            loop = SimLoop()
            asyncio.set_event_loop(loop)
            loop.run_until_complete(self.consume_async())
            loop.close()
            asyncio.set_event_loop(None)
        except S.Abort:
            raise
        except BaseException as e:  # noqa
            self.harness_errors.append(f'consumer: {type(e).__name__}: {e}')

    # ---------------------------------------------------------------- to_sync
    def consumer_sync(self):
        self.consumer_thread = self.sch.me().idx
        try:
            kw = {}
            if self.prog['explicit_loop']:
                self.given_loop = SimLoop()
                kw['loop'] = self.given_loop
            it = self.aa.to_sync_iter(self.agen_source(), **kw)
            ab = self.prog.get('abandon_after')
            try:
                for x in it:
                    if ab is not None and len(self.got) >= ab:
                        self.abandoned = True
                        break
                    self.got.append(x)
                    self.sch.log('got', repr(x))
                    if self.prog['consumer_delay']:
                        sim_sleep(self.prog['consumer_delay'])
                self.terminal = 'stop'
            except BaseException as e:  # noqa
                if isinstance(e, S.Abort):
                    raise
                self.terminal = e
            if self.abandoned:
                try:
                    it.close()          # may report the source's own failure; nothing else
                except BaseException as e:  # noqa
                    if isinstance(e, S.Abort):
                        raise
                    if e is not self.exc:
                        self.viol('iter.close_error', 'closing an abandoned iteration raised something other than the source\'s failure',
                                  repr(e))
            try:
                next(it)
                self.viol('iter.not_exhausted', 'iterator yields after its end', 'extra element after termination')
            except StopIteration:
                pass
            except BaseException as e:  # noqa
                if isinstance(e, S.Abort):
                    raise
                self.viol('iter.not_exhausted', 'iterator raises again after its end', repr(e))
            self.check_helpers('to_sync_iter')
            su = self.prog.get('second_use')
            if su:
                # state that survives from one use to the next: the caller's loop must still be usable
                self.phase2 = True
                vals = [('second', j) for j in range(su['n'])]
                exc2 = SourceError('second') if su['fail'] else None

                async def agen2():
                    for v in vals:
                        await asyncio.sleep(Q)
                        yield v
                    if exc2 is not None:
                        raise exc2
                got2, term2 = [], 'stop'
                try:
                    for x in self.aa.to_sync_iter(agen2(), loop=self.given_loop):
                        got2.append(x)
                except BaseException as e:  # noqa
                    if isinstance(e, S.Abort):
                        raise
                    term2 = e
                if got2 != vals or (term2 is not exc2 if exc2 is not None else term2 != 'stop'):
                    self.viol('iter.second_use', 'a second iteration on the same caller-supplied loop misbehaves',
                              f'to_sync_iter(loop=L) twice: second use expected {vals!r} then {exc2!r}, got {got2!r} then {term2!r}')
                self.check_helpers('to_sync_iter (2nd use)')
            zz = self.prog.get('then_zip')
            if zz:
                # state that persists between uses: two further iterations, alive at the same time
                self.phase2 = True

                def agen_n(tag, n):
                    async def g():
                        for j in range(n):
                            await asyncio.sleep(Q)
                            yield (tag, j)
                    return g()
                ita = self.aa.to_sync_iter(agen_n('a', zz[0]))
                itb = self.aa.to_sync_iter(agen_n('b', zz[1]))
                got_a, got_b, err = [], [], None
                try:
                    for k in range(max(zz)):
                        if k < zz[0]:
                            got_a.append(next(ita))
                        if k < zz[1]:
                            got_b.append(next(itb))
                    for it in (ita, itb):
                        try:
                            next(it)
                        except StopIteration:
                            pass
                except BaseException as e:  # noqa
                    if isinstance(e, S.Abort):
                        raise
                    err = e
                exp_a = [('a', j) for j in range(zz[0])]
                exp_b = [('b', j) for j in range(zz[1])]
                if err is not None or got_a != exp_a or got_b != exp_b:
                    self.viol('iter.concurrent_iterations', 'two to_sync_iter iterations alive at once disturb each other',
                              f'after a first use (source failure kind {self.prog.get("fail_kind")}, fail_at={self.prog["fail_at"]}): '
                              f'expected {exp_a} and {exp_b}, got {got_a} and {got_b}, error {err!r}')
                self.check_helpers('to_sync_iter (interleaved uses)')
            self.finished = True
        except S.Abort:
            raise
        except BaseException as e:  # noqa
            self.harness_errors.append(f'consumer: {type(e).__name__}: {e}')

    def check_helpers(self, what):
        live = [w for p in SimPool.registry for w in p.live_workers()]
        if live:
            self.viol('iter.helper_thread_left', 'a helper thread is still alive after iteration finished',
                      f'{what}: {len(live)} pool worker(s) alive: {live!r}')

    def main(self):
        sch = self.sch
        fn = self.consumer_async if self.prog['dir'] == 'to_async' else self.consumer_sync
        t = sch.spawn(fn, 'consumer')
        sch.join([t])
        self.sch.seams.shutdown_pools()

    # ------------------------------------------------------------------ judge
    def judge(self):
        p = self.prog
        sch = self.sch
        for e in self.harness_errors:
            self.violations.append({'property': 'HARNESS', 'oracle': 'harness.error', 'signature': 'harness error',
                                    'detail': e, 'features': {}})
        if self.end != 'normal':
            if self.end in ('quiescent', 'livelock'):
                self.viol('iter.hang', 'consumer never finishes',
                          f'{p["dir"]} over {p["src"]}: run ended {self.end} at t={sch.clock}; got {self.got!r} of '
                          f'{self.values!r}, fail_at={p["fail_at"]}' + (' (during the 2nd use of the same loop)' if self.phase2 else ''),
                          direction=p['dir'])
            else:
                self.violations.append({'property': 'HARNESS', 'oracle': 'harness.' + str(self.end),
                                        'signature': 'unexpected end', 'detail': str(self.end), 'features': {}})
            return
        fail_at = p['fail_at']
        exp = self.values if fail_at is None else self.values[:fail_at]
        if self.abandoned:
            exp = exp[:p['abandon_after']]
        same = len(exp) == len(self.got) and all(type(a) is type(b) and a == b for a, b in zip(exp, self.got))
        if not same:
            self.viol('iter.sequence', 'consumed sequence differs from the source',
                      f'{p["dir"]} over {p["src"]}: expected {exp!r}, got {self.got!r} (fail_at={fail_at})', direction=p['dir'])
        if self.abandoned:
            pass
        elif fail_at is None:
            if self.terminal != 'stop':
                self.viol('iter.spurious_error', 'iteration ended with an exception although the source did not fail',
                          f'{p["dir"]} over {p["src"]}: {self.terminal!r}', direction=p['dir'])
        else:
            if self.terminal is not self.exc:
                self.viol('iter.error_lost', "the source's exception did not reach the consumer (same object, after the prefix)",
                          f'{p["dir"]} over {p["src"]}: source raised {self.exc!r} after {fail_at} element(s); consumer saw '
                          f'{self.terminal!r}', direction=p['dir'])
        if p['dir'] == 'to_async' and p['src'] not in ('list', 'range'):
            # loop responsiveness while the source blocks
            gaps = [b - a for a, b in zip(self.ticks, self.ticks[1:])]
            if self.ticks and getattr(self, 't_end', None) is not None:
                gaps.append(self.t_end - self.ticks[-1])
            worst = max(gaps) if gaps else 0.0
            if worst > p['tick'] + 1e-9:
                self.viol('iter.loop_blocked', 'the event loop was blocked while the synchronous iterator was blocked',
                          f'ticker (every {p["tick"]}) saw a gap of {worst}; source delays {p["delays"]}')
            if self.consumer_thread in self.src_threads and (len(self.values) or fail_at is not None):
                self.viol('iter.iterated_on_loop_thread', 'a synchronous iterator was iterated on the event-loop thread',
                          f'source stepped by threads {sorted(self.src_threads)}, loop thread {self.consumer_thread}')
        if p['dir'] == 'to_sync' and self.src_loop is not None and p['explicit_loop']:
            if self.src_loop is not self.given_loop:
                self.viol('iter.wrong_loop', 'async source did not run on the loop passed as loop=', repr(self.src_loop))


def execute(prog, sspec, keep_log=False):
    aa, _ = env.aiuti()
    sch = S.Sched(seed=sspec.get('seed', 0), strategy=sspec.get('strategy', ('sticky', 0.1)),
                  switches=sspec.get('switches'), strict=sspec.get('strict', True),
                  step_cap=30_000, trace_files=(aa.__file__,), keep_log=keep_log)
    sch.log('prog', json.dumps(prog, sort_keys=True))
    w = IterWorld(prog, sch, aa)
    seams = AsyncioSeams(aa).install()
    sch.seams = seams
    install_policy()
    try:
        try:
            sch.run(w.main)
            w.end = 'normal'
        except S.Quiescent:
            w.end = 'quiescent'
        except S.StepCap as e:
            w.end = 'livelock' if e.clock_stuck else 'stepcap'
        except S.ReplayDiverged as e:
            w.end = 'diverged'
            w.harness_errors.append(f'REPLAY-DIVERGED {e}')
    finally:
        restore_policy()
        seams.restore()
    w.judge()
    for L in sch.loops:
        if not L.is_closed() and not L.is_running():
            try:
                L.close()
            except Exception:
                pass
    return {'end': w.end, 'violations': w.violations, 'digest': sch.digest(), 'steps': sch.step, 'vtime': sch.clock,
            'switches': [list(x) for x in sch.switch_log], 'nswitch': sch.nswitch, 'nswitch_traced': sch.nswitch_traced,
            'edges': sch.edges,
            'faults': {'source.fail': int(prog['fail_at'] is not None and w.exc is not None)},
            'probes': {'iter.producer_thread_used': int(len(w.src_threads - {w.consumer_thread}) > 0),
                       'iter.inline_path': int(prog['src'] in ('list', 'range')),
                       'iter.' + prog['dir']: 1},
            'leaked': sch.leaked, 'nontrivial': sch.nswitch_traced > 0 or len(prog['elems']) >= 2,
            'log': sch.log_list if keep_log else None, 'outcomes': [w.got, repr(w.terminal)]}
