"""
procworld — FileLock across real processes, stepped in lock-step by a controller (C02 b, C13).

Every child process runs a small FileLock usage script.  A trace function reports each ``line``
event inside aiuti/filelock.py to the controller over a pipe and waits for permission to go on;
blocking flock becomes LOCK_NB + report 'B' + wait, so the *kernel* decides exclusion while the
controller's PRNG decides order.  SIGKILL is a controller action on a parked child, which makes
"killed at line L with two contenders parked at lines M and N" a reproducible state.

Wire format child -> controller: 1 byte kind + 2 bytes little-endian line number.
  L line event   B flock would block   S sleeping (virtual, per-child clock)   C entered critical section
  X left critical section   V marker already exists (overlap seen by the child)   F acquire failed (reported False)
  D done   E script raised
"""

import os
import sys
import json
import errno
import fcntl
import signal
import struct
import random
import hashlib

from .. import env
from . import flworld

REC = struct.Struct('<cH')


# ------------------------------------------------------------------ child side
class _ChildIO:
    def __init__(self, rfd, wfd):
        self.rfd = rfd
        self.wfd = wfd

    def report(self, kind, line=0, wait=True):
        os.write(self.wfd, REC.pack(kind, line & 0xFFFF))
        if wait:
            b = os.read(self.rfd, 1)
            if not b:
                os._exit(0)         # controller went away


class _ChildTime:
    def __init__(self, io):
        self.now = 0.0
        self.io = io
        self.fork_in_sleep = None       # path of the helper-pid file: fork a long-lived child during the first sleep

    def time(self):
        return self.now

    monotonic = perf_counter = time

    def time_ns(self):
        return int(self.now * 1_000_000_000)

    monotonic_ns = perf_counter_ns = time_ns

    def __getattr__(self, name):
        import time as _t
        return getattr(_t, name)

    def sleep(self, d):
        self.now += max(d, 0.0)
        if self.fork_in_sleep:
            # The application forks (a worker, a daemonised helper ...) while the library is merely waiting between two
            # polls.  The child inherits whatever the process has open at this instant and lives on.
            hp, self.fork_in_sleep = self.fork_in_sleep, None
            sys.settrace(None)
            pid = os.fork()
            if pid == 0:
                try:
                    os.close(self.io.rfd)
                    os.close(self.io.wfd)
                    while True:
                        signal.pause()
                finally:
                    os._exit(0)
            with open(hp, 'a') as f:
                f.write(f'{pid}\n')
            sys.settrace(self.retrace)
        self.io.report(b'S')


class _ChildFcntl:
    LOCK_EX = fcntl.LOCK_EX
    LOCK_NB = fcntl.LOCK_NB
    LOCK_UN = fcntl.LOCK_UN
    LOCK_SH = fcntl.LOCK_SH

    def __init__(self, io):
        self.io = io

    def __getattr__(self, n):
        return getattr(fcntl, n)

    def flock(self, fd, op):
        if op & fcntl.LOCK_UN or op & fcntl.LOCK_NB:
            return fcntl.flock(fd, op)
        while True:
            try:
                return fcntl.flock(fd, op | fcntl.LOCK_NB)
            except BlockingIOError:
                self.io.report(b'B')

    def lockf(self, fd, op, *a):
        if op & fcntl.LOCK_UN or op & fcntl.LOCK_NB:
            return fcntl.lockf(fd, op, *a)
        while True:
            try:
                return fcntl.lockf(fd, op | fcntl.LOCK_NB, *a)
            except (BlockingIOError, PermissionError):
                self.io.report(b'B')


def child_main(script, path, marker, rfd, wfd, close_fds, inherited=None):
    """Runs in the forked child; never returns."""
    try:
        # close the controller's pipe ends to the other children (harness plumbing); everything else is inherited as
        # with any fork(): in particular descriptors the library itself may have left open in the parent
        for fd in close_fds:
            try:
                os.close(fd)
            except OSError:
                pass
        _, fl = env.aiuti()
        io = _ChildIO(rfd, wfd)
        import time as _t
        ct, cf = _ChildTime(io), _ChildFcntl(io)
        table = {id(_t): ct, id(_t.time): ct.time, id(_t.monotonic): ct.time, id(_t.sleep): ct.sleep,
                 id(_t.perf_counter): ct.time, id(_t.time_ns): ct.time_ns, id(_t.monotonic_ns): ct.time_ns,
                 id(_t.perf_counter_ns): ct.time_ns,
                 id(fcntl): cf, id(fcntl.flock): cf.flock, id(fcntl.lockf): cf.lockf}
        for n, v in list(vars(fl).items()):         # by identity, not by name: survives import-style refactors
            if not n.startswith('__') and id(v) in table:
                setattr(fl, n, table[id(v)])
        flfile = fl.__file__

        def ltrace(frame, event, arg):
            if event == 'line':
                io.report(b'L', frame.f_lineno)
            return ltrace

        def gtrace(frame, event, arg):
            if frame.f_code.co_filename == flfile:
                return ltrace
            return None

        if script.get('fork_in_sleep'):
            ct.fork_in_sleep = path + '.helper'
            ct.retrace = gtrace
        if script.get('inherit') and inherited is not None:
            lock = inherited        # a FileLock object the parent created and already used before fork()
            lock.timeout = script.get('ctor_timeout', -1)
        else:
            lock = fl.FileLock(path, timeout=script.get('ctor_timeout', -1), reentrant=script.get('reentrant', False))

        def fds_on_lock_file():
            n = 0
            for name in os.listdir('/proc/self/fd'):
                try:
                    if os.readlink('/proc/self/fd/' + name) == path:
                        n += 1
                except OSError:
                    pass
            return n

        def locked_by_me():
            # kernel truth: does THIS process own a flock on the lock file?  (/proc/locks names the pid that took each
            # lock.)  A descriptor that is merely open - a design that keeps one descriptor per object between
            # acquisitions - holds nothing and is not what C02/C13 forbid; only where /proc/locks cannot be read does
            # the old, stricter test (any descriptor open on the lock file) stand in.
            try:
                ino = os.stat(path).st_ino
                me = str(os.getpid())
                with open('/proc/locks') as f:
                    for ln in f:
                        w = ln.split()
                        if '->' in w or 'FLOCK' not in w:
                            continue
                        i = w.index('FLOCK')
                        if w[i + 3] == me and w[i + 4].rsplit(':', 1)[-1] == str(ino):
                            return True
                return False
            except (OSError, IndexError, ValueError):
                return bool(fds_on_lock_file())

        def released():
            # (c) after its outermost release a process must not still hold the lock
            if lock.is_locked or locked_by_me():
                io.report(b'V', 3)

        def failed():
            # (b) an acquire that reported failure must not leave the process holding the lock
            if lock.is_locked or locked_by_me():
                io.report(b'V', 2)
            io.report(b'F')

        def critical():
            try:
                fd = os.open(marker, os.O_CREAT | os.O_EXCL | os.O_WRONLY)
            except FileExistsError:
                io.report(b'V')
                fd = None
            io.report(b'C')
            if script.get('spawn_helper'):
                # a daemon that starts a long-running program while it holds the lock (descriptors are inherited
                # across exec unless they are close-on-exec, which every descriptor Python opens is)
                import subprocess
                sys.settrace(None)
                h = subprocess.Popen(['/bin/sleep', '30'], close_fds=False, stdin=subprocess.DEVNULL,
                                     stdout=subprocess.DEVNULL, stderr=subprocess.DEVNULL)
                with open(path + '.helper', 'a') as f:
                    f.write(f'{h.pid}\n')
                sys.settrace(gtrace)
            if not lock.is_locked:
                io.report(b'V', 1)
            for _ in range(script.get('hold_steps', 2)):
                io.report(b'L', 0)
            if fd is not None:
                os.close(fd)
                os.unlink(marker)
            io.report(b'X')

        round_no = [0]

        def one_round(depth):
            how = script.get('how', 'acquire')
            kw = {}
            mode = script.get('mode')
            if script.get('modes'):
                mode = script['modes'][round_no[0] % len(script['modes'])]
            if mode == 'nb':
                kw = {'blocking': False}
            elif mode == 'timed':
                kw = {'timeout': script.get('timeout', 0.25)}
            if how == 'acquire':
                if lock.acquire(**kw):
                    try:
                        if depth > 1:
                            one_round(depth - 1)
                        else:
                            critical()
                    finally:
                        lock.release()
                else:
                    failed()
            elif how == 'ctx':
                try:
                    with lock.acquire_ctx(**kw):
                        if depth > 1:
                            one_round(depth - 1)
                        else:
                            critical()
                except TimeoutError:
                    failed()
            else:
                try:
                    with lock:
                        if depth > 1:
                            one_round(depth - 1)
                        else:
                            critical()
                except TimeoutError:
                    failed()

        io.report(b'L', 0)              # parked before the first line: the controller decides when we start
        if script.get('close_stdin'):
            os.close(0)                 # daemon-style: the next descriptor the process opens is number 0
        sys.settrace(gtrace)
        try:
            for _ in range(script.get('rounds', 1)):
                one_round(script.get('nest', 1))
                round_no[0] += 1
                sys.settrace(None)
                released()
                sys.settrace(gtrace)
        finally:
            sys.settrace(None)
        io.report(b'D', wait=False)
    except BaseException as e:  # noqa
        try:
            sys.settrace(None)
            os.write(wfd, REC.pack(b'E', 0))
            sys.stderr.write(f'child error: {type(e).__name__}: {e}\n')
        except Exception:
            pass
    finally:
        os._exit(0)


# ------------------------------------------------------------- controller side
class Child:
    def __init__(self, idx, pid, rfd, wfd, script):
        self.idx = idx
        self.pid = pid
        self.rfd = rfd          # controller reads child's reports
        self.wfd = wfd          # controller writes 'g'
        self.script = script
        self.state = 'new'      # parked | blocked | done | dead | error
        self.line = 0
        self.events = 0         # number of L events inside filelock.py seen
        self.in_critical = False
        self.last_kind = None
        self.failed = 0
        self.entries = 0
        self.sleeps = 0


class Controller:
    def __init__(self, path, marker):
        self.path = path
        self.marker = marker
        self.children = []
        self.holders = []
        self.violations = []
        self.log = hashlib.blake2b(digest_size=16)
        self.steps = 0
        self.kills = 0
        self.zombies = []
        self.helpers = []
        self.inherited = None

    def viol(self, prop, oracle, sig, detail, **features):
        self.violations.append({'property': prop, 'oracle': oracle, 'signature': sig, 'detail': detail, 'features': features})

    def spawn(self, script):
        c2p_r, c2p_w = os.pipe()
        p2c_r, p2c_w = os.pipe()
        sys.stdout.flush()
        sys.stderr.flush()
        others = [fd for c in self.children if c.state in ('parked', 'blocked', 'new') for fd in (c.rfd, c.wfd)]
        pid = os.fork()
        if pid == 0:
            child_main(script, self.path, self.marker, p2c_r, c2p_w, others + [c2p_r, p2c_w], self.inherited)
        os.close(c2p_w)
        os.close(p2c_r)
        ch = Child(len(self.children), pid, c2p_r, p2c_w, script)
        self.children.append(ch)
        self.read_event(ch)         # initial park
        return ch

    def read_event(self, ch):
        data = b''
        while len(data) < 3:
            b = os.read(ch.rfd, 3 - len(data))
            if not b:
                ch.state = 'dead'
                return 'dead'
            data += b
        kind, line = REC.unpack(data)
        kind = kind.decode()
        ch.last_kind = kind
        self.log.update(b'%d%s%d;' % (ch.idx, kind.encode(), line))
        if kind == 'L':
            ch.state = 'parked'
            ch.line = line
            if line:
                ch.events += 1
        elif kind == 'B':
            ch.state = 'blocked'
        elif kind == 'S':
            ch.state = 'parked'
            ch.sleeps += 1
        elif kind == 'C':
            ch.state = 'parked'
            ch.in_critical = True
            ch.entries += 1
            if self.holders:
                self.viol('C02', 'filelock.process_overlap', 'two processes inside the protected section at once',
                          f'process {ch.idx} entered while {self.holders} inside (step {self.steps})')
            self.holders.append(ch.idx)
        elif kind == 'X':
            ch.state = 'parked'
            ch.in_critical = False
            if ch.idx in self.holders:
                self.holders.remove(ch.idx)
        elif kind == 'V':
            ch.state = 'parked'
            what = {0: ('filelock.process_overlap', 'a process found the exclusive marker already present'),
                    1: ('filelock.process_not_locked_inside', 'is_locked false inside the section'),
                    2: ('filelock.process_keeps_lock_after_failure',
                        'an acquire that reported failure left that process holding the lock (is_locked or a kernel flock it owns)'),
                    3: ('filelock.process_keeps_lock_after_release',
                        'after its outermost release a process still holds the lock (is_locked or a kernel flock it owns)')}[line]
            self.viol('C02', what[0], what[1], f'process {ch.idx} (step {self.steps})')
        elif kind == 'F':
            ch.state = 'parked'
            ch.failed += 1
        elif kind == 'D':
            ch.state = 'done'
            os.waitpid(ch.pid, 0)
            os.close(ch.rfd)
            os.close(ch.wfd)
        elif kind == 'E':
            ch.state = 'error'
        return kind

    def step(self, ch):
        """Let the child run to its next event."""
        self.steps += 1
        os.write(ch.wfd, b'g')
        return self.read_event(ch)

    def kill(self, ch, reap=True):
        self.kills += 1
        self.log.update(b'K%d;' % ch.idx)
        os.kill(ch.pid, signal.SIGKILL)
        if reap:
            os.waitpid(ch.pid, 0)
        else:
            # leave it a zombie until cleanup(): its pid still exists, as with a parent that is slow to wait().
            # WNOWAIT waits until the process *is* a zombie (all its descriptors are closed by then) without reaping it.
            os.waitid(os.P_PID, ch.pid, os.WEXITED | os.WNOWAIT)
            self.zombies.append(ch.pid)
        os.close(ch.rfd)
        os.close(ch.wfd)
        ch.state = 'dead'
        if ch.idx in self.holders:
            self.holders.remove(ch.idx)
        if ch.in_critical:
            try:
                os.unlink(self.marker)      # its marker; the dead cannot tidy up
            except OSError:
                pass

    def live(self):
        return [c for c in self.children if c.state in ('parked', 'blocked')]

    def run_all(self, rng, step_cap=30_000, choices=None, record=None):
        """Step live children under the PRNG until all are done.  Returns 'done' | 'deadlock' | 'stepcap'."""
        stale = 0
        while True:
            live = self.live()
            if not live:
                return 'done'
            if self.steps > step_cap:
                return 'stepcap'
            ready = [c for c in live if c.state == 'parked']
            if ready:
                stale = 0
                # mostly move the ready ones, sometimes retry a blocked one
                pool = ready if rng.random() < 0.85 else live
            else:
                pool = live
                stale += 1
                if stale > 3 * len(live):
                    return 'deadlock'
            ch = pool[rng.randrange(len(pool))]
            if record is not None:
                record.append(ch.idx)
            before = ch.state
            k = self.step(ch)
            if before == 'blocked' and k != 'B':
                stale = 0

    def cleanup(self):
        for pid in self.zombies:
            try:
                os.waitpid(pid, 0)
            except OSError:
                pass
        self.zombies = []
        hp = self.path + '.helper'
        if os.path.exists(hp):
            for line in open(hp).read().split():
                try:
                    os.kill(int(line), signal.SIGKILL)
                except (OSError, ValueError):
                    pass
            os.unlink(hp)
        for c in self.children:
            if c.state in ('parked', 'blocked', 'new', 'error'):
                try:
                    os.kill(c.pid, signal.SIGKILL)
                    os.waitpid(c.pid, 0)
                except OSError:
                    pass
                for fd in (c.rfd, c.wfd):
                    try:
                        os.close(fd)
                    except OSError:
                        pass
                c.state = 'dead'
        for p in (self.marker, self.path):
            try:
                os.unlink(p)
            except OSError:
                pass


# ---------------------------------------------------------------- C02 (b)
def _w(rng, pairs):
    tot = sum(w for _, w in pairs)
    x = rng.random() * tot
    for v, w in pairs:
        x -= w
        if x < 0:
            return v
    return pairs[-1][0]


def gen_script(rng, allow_reentrant=True):
    how = _w(rng, [('acquire', 4), ('ctx', 3), ('with', 3)])
    mode = _w(rng, [('default', 5), ('nb', 2), ('timed', 3)]) if how != 'with' else 'default'
    reentrant = allow_reentrant and rng.random() < 0.3
    return {'how': how, 'mode': mode, 'reentrant': reentrant, 'nest': rng.randint(1, 3) if reentrant else 1,
            # later rounds may use another acquisition mode than the first (a try-lock that fails, then a real acquire)
            'modes': [_w(rng, [('default', 5), ('nb', 3), ('timed', 3)]) for _ in range(3)] if how != 'with' else None,
            'rounds': rng.randint(1, 3), 'ctor_timeout': _w(rng, [(-1, 6), (0.25, 3), (0, 1)]),
            'timeout': 0.25, 'hold_steps': rng.randint(1, 4)}


def gen_contend_program(rng, profile):
    n = _w(rng, [(2, 4), (3, 4), (4, 2), (8, 1), (16, 0.5)])
    prog = {'world': 'proc-contend', 'scripts': [gen_script(rng) for _ in range(n)]}
    if rng.random() < 0.25:
        # the usual multiprocessing set-up: one FileLock object made (and already used once) by the parent, which stays alive,
        # and used by several of its fork() children - they are still "different processes" contending for one lock file
        prog['inherit'] = True
        for sc in prog['scripts']:
            if rng.random() < 0.7:
                sc.update(inherit=True, reentrant=False, nest=1)
    return prog


def execute_contend(prog, sspec):
    env.aiuti()
    path = flworld.fresh_path()
    ctl = Controller(path, path + '.marker')
    rng = random.Random(sspec.get('seed', 0))
    end = 'normal'
    pre = None
    try:
        if prog.get('inherit'):
            _, fl = env.aiuti()
            pre = fl.FileLock(path)
            assert pre.acquire(blocking=False)
            pre.release()
            ctl.inherited = pre
        for s in prog['scripts']:
            ctl.spawn(s)
        ctl.inherited = None
        r = ctl.run_all(rng)
        if r == 'deadlock':
            end = 'deadlock'
            ctl.viol('C02', 'filelock.process_deadlock', 'contending processes never all finish',
                     f'{[(c.idx, c.state, c.line) for c in ctl.children]}')
        elif r == 'stepcap':
            end = 'stepcap'
            ctl.viol('HARNESS', 'harness.stepcap', 'step cap', str(ctl.steps))
        for c in ctl.children:
            if c.state == 'error':
                ctl.viol('HARNESS', 'harness.child_error', 'child script raised', f'child {c.idx}')
    finally:
        if pre is not None:
            try:
                pre.release(force=True)
            except Exception:  # noqa
                pass
        ctl.cleanup()
    entries = sum(c.entries for c in ctl.children)
    return {'end': end, 'violations': ctl.violations, 'digest': ctl.log.hexdigest(), 'steps': ctl.steps, 'vtime': 0.0,
            'switches': [], 'nswitch': ctl.steps, 'edges': set(), 'faults': {},
            'probes': {'proc.section_entries': entries, 'proc.failed_acquires': sum(c.failed for c in ctl.children),
                       'proc.processes': len(ctl.children),
                       'proc.children_on_inherited_object': sum(1 for sc in prog['scripts'] if sc.get('inherit'))},
            'leaked': 0, 'nontrivial': len(prog['scripts']) >= 2 and entries >= 1,
            'outcomes': [(c.idx, c.entries, c.failed) for c in ctl.children]}


# ------------------------------------------------------------------- C13
CRASH_SCRIPTS = {
    'blocking': {'how': 'acquire', 'mode': 'default', 'reentrant': False, 'nest': 1, 'rounds': 1, 'ctor_timeout': -1, 'hold_steps': 2},
    'timed': {'how': 'ctx', 'mode': 'timed', 'timeout': 0.25, 'reentrant': False, 'nest': 1, 'rounds': 1, 'ctor_timeout': -1, 'hold_steps': 2},
    'with_default_timeout': {'how': 'with', 'mode': 'default', 'reentrant': False, 'nest': 1, 'rounds': 1, 'ctor_timeout': 0.25, 'hold_steps': 2},
    'reentrant_nested': {'how': 'acquire', 'mode': 'default', 'reentrant': True, 'nest': 3, 'rounds': 1, 'ctor_timeout': -1, 'hold_steps': 2},
    'two_rounds': {'how': 'with', 'mode': 'default', 'reentrant': False, 'nest': 1, 'rounds': 2, 'ctor_timeout': -1, 'hold_steps': 1},
    'inherited_object': {'how': 'acquire', 'mode': 'default', 'reentrant': False, 'nest': 1, 'rounds': 1, 'ctor_timeout': -1,
                         'hold_steps': 2, 'inherit': True},
    'daemon_with_helper': {'how': 'acquire', 'mode': 'default', 'reentrant': False, 'nest': 1, 'rounds': 1, 'ctor_timeout': -1,
                           'hold_steps': 2, 'close_stdin': True, 'spawn_helper': True},
    # a timed acquire that has to wait for another holder; while it sleeps between two polls the application forks a
    # long-lived child; later it gets the lock and is killed
    'waiter_forks_between_polls': {'how': 'acquire', 'mode': 'timed', 'timeout': 30.0, 'reentrant': False, 'nest': 1, 'rounds': 1,
                                   'ctor_timeout': -1, 'hold_steps': 2, 'fork_in_sleep': True, 'pre_holder': True,
                                   # Not part of the registered check (see DESIGN.md 10.2): relatives created by fork() while
                                   # the library waits are outside C13's quantified space, and the pinned tree is itself
                                   # exposed to them in its blocking mode (the descriptor is open while flock() blocks).
                                   'outside_quantifier': True},
}
FRESH = {'how': 'acquire', 'mode': 'default', 'reentrant': False, 'nest': 1, 'rounds': 1, 'ctor_timeout': -1, 'hold_steps': 1}
# the probe that must get the lock after the crash alternates between the blocking and the polling (timed) path
FRESH_TIMED = {'how': 'acquire', 'mode': 'timed', 'timeout': 0.25, 'reentrant': False, 'nest': 1, 'rounds': 1, 'ctor_timeout': -1,
               'hold_steps': 1}

_event_counts = {}


def count_events(name):
    """Number of controller steps a lone child needs for the script (run to completion once)."""
    key = (name, env.REPO)
    if key in _event_counts:
        return _event_counts[key]
    path = flworld.fresh_path()
    ctl = Controller(path, path + '.marker')
    try:
        if not name.startswith('__fresh') and CRASH_SCRIPTS[name].get('inherit'):
            _, fl = env.aiuti()
            ctl.inherited = fl.FileLock(path)
        ch = ctl.spawn(CRASH_SCRIPTS[name] if not name.startswith('__fresh') else (FRESH if name == '__fresh__' else FRESH_TIMED))
        n = 0
        while ch.state in ('parked', 'blocked') and n < 5000:
            ctl.step(ch)
            n += 1
        first_c = None
    finally:
        ctl.cleanup()
    _event_counts[key] = n
    return n


def execute_crash(prog, sspec):
    """prog: {'script': name, 'kill_at': k, 'contenders': [{'script': {...}, 'advance': steps}, ...]}"""
    env.aiuti()
    path = flworld.fresh_path()
    ctl = Controller(path, path + '.marker')
    rng = random.Random(sspec.get('seed', 0))
    end = 'normal'
    timed_probe = bool(prog.get('timed_probe'))
    fresh_script = FRESH_TIMED if timed_probe else FRESH
    fresh_budget = prog.get('fresh_budget') or (count_events('__fresh_timed__' if timed_probe else '__fresh__') + 5)
    killed_state = None
    try:
        if CRASH_SCRIPTS[prog['script']].get('inherit'):
            # the parent (this controller process, which stays alive) creates the object and uses it once before fork()
            _, fl = env.aiuti()
            pre = fl.FileLock(path)
            assert pre.acquire(blocking=False)
            pre.release()
            pre2 = fl.FileLock(path)
            pre.acquire(blocking=False)
            assert not pre2.acquire(blocking=False)      # one failed attempt on a second object, too
            pre.release()
            ctl.inherited = pre
            ctl.keepalive = (pre, pre2)
        pre_holder = None
        if CRASH_SCRIPTS[prog['script']].get('pre_holder'):
            pre_holder = ctl.spawn(dict(FRESH, hold_steps=3))
            n = 0
            while not pre_holder.in_critical and pre_holder.state in ('parked', 'blocked') and n < 400:
                ctl.step(pre_holder)
                n += 1
        victim = ctl.spawn(CRASH_SCRIPTS[prog['script']])
        ctl.inherited = None
        if pre_holder is not None:
            # the victim runs into the held lock and sleeps between polls at least once; then the holder finishes
            n = 0
            while victim.sleeps < 1 + prog.get('extra_polls', 0) and victim.state in ('parked', 'blocked') and n < 2000:
                ctl.step(victim)
                n += 1
            n = 0
            while pre_holder.state in ('parked', 'blocked') and n < 400:
                ctl.step(pre_holder)
                n += 1
        others = [ctl.spawn(c['script']) for c in prog.get('contenders', ())]
        # park contenders at their seeded positions (they may block on the victim's lock: fine)
        plan = []
        for o, c in zip(others, prog.get('contenders', ())):
            plan += [o] * c['advance']
        k = prog['kill_at']
        plan += [victim] * k
        rng.shuffle(plan)
        # keep the victim's k steps in order but interleaved with the contenders' steps
        done_v = 0
        queued = None

        def queue_a_waiter():
            # a contender that is already waiting inside a blocking flock() on the lock file when the holder gets to its
            # release (or dies): what it holds open is the file as it was *then*
            w = ctl.spawn(dict(FRESH, hold_steps=2))
            n = 0
            while w.state == 'parked' and not w.in_critical and n < 400:
                ctl.step(w)
                n += 1
            others.append(w)
            return w
        for ch in plan:
            if ch.state not in ('parked', 'blocked'):
                continue
            if ch is victim:
                if done_v >= k:
                    continue
                done_v += 1
            ctl.step(ch)
            if prog.get('queued_waiter') and queued is None and victim.in_critical:
                queued = queue_a_waiter()
        while done_v < k and victim.state in ('parked', 'blocked'):
            ctl.step(victim)
            done_v += 1
            if prog.get('queued_waiter') and queued is None and victim.in_critical:
                queued = queue_a_waiter()
        killed_state = {'line': victim.line, 'in_critical': victim.in_critical, 'state': victim.state, 'events': victim.events}
        if victim.state in ('parked', 'blocked'):
            ctl.kill(victim, reap=not prog.get('zombie'))
        # (i) a fresh process must get the lock without any survivor having to act -- unless a survivor holds it
        # (kernel truth: probe the flock from the controller's own descriptor)
        survivor_holds = flworld.kernel_locked(path)
        if not survivor_holds:
            fresh = ctl.spawn(fresh_script)
            n = 0
            while fresh.state in ('parked', 'blocked') and not fresh.in_critical and n < fresh_budget:
                ctl.step(fresh)
                n += 1
            if fresh.in_critical:
                # while the newcomer is parked inside its critical section every survivor gets to run on (up to 80 events, or
                # until it is queued again): none of them may get in as well (the overlap detector judges)
                for o in list(ctl.children):
                    if o is fresh:
                        continue
                    n = 0
                    while o.state in ('parked', 'blocked') and not o.in_critical and n < 80:
                        was_blocked = o.state == 'blocked'
                        ctl.step(o)
                        n += 1
                        if was_blocked and o.state == 'blocked':
                            break               # still queued behind the newcomer: as it should be
            if not fresh.in_critical and fresh.entries == 0:
                ctl.viol('C13', 'filelock.stuck_after_crash', 'a fresh process cannot acquire the lock after the holder was killed',
                         f'script {prog["script"]} killed after {k} step(s) at filelock.py:{killed_state["line"]} '
                         f'(in_critical={killed_state["in_critical"]}, left as zombie={bool(prog.get("zombie"))}, '
                         f'probe={"timed" if timed_probe else "blocking"}); fresh process state {fresh.state} at line {fresh.line} after '
                         f'{n} step(s); contenders {[(o.idx, o.state, o.line) for o in others]}',
                         script=prog['script'])
        # (ii) everybody alive runs to completion under the overlap detector
        r = ctl.run_all(rng)
        if r == 'deadlock':
            end = 'deadlock'
            ctl.viol('C13', 'filelock.survivors_stuck', 'survivors never finish after the crash',
                     f'script {prog["script"]} killed after {k} step(s) at line {killed_state["line"]}: '
                     f'{[(c.idx, c.state, c.line) for c in ctl.children]}', script=prog['script'])
        elif r == 'stepcap':
            end = 'stepcap'
            ctl.viol('C13', 'filelock.survivors_stuck', 'survivors never finish after the crash',
                     f'script {prog["script"]} killed after {k} step(s) at line {killed_state["line"]}: still '
                     f'{[(c.idx, c.state, c.line) for c in ctl.live()]} after {ctl.steps} controller steps', script=prog['script'])
        if r == 'done':
            late = ctl.spawn(fresh_script)
            n = 0
            while late.state in ('parked', 'blocked') and not late.in_critical and n < fresh_budget:
                ctl.step(late)
                n += 1
            if not late.in_critical and late.entries == 0:
                ctl.viol('C13', 'filelock.stuck_after_crash', 'a fresh process cannot acquire the lock after the holder was killed',
                         f'script {prog["script"]} killed after {k} step(s) at filelock.py:{killed_state["line"]}; after every survivor '
                         f'finished a fresh process is still {late.state} at line {late.line} after {n} step(s)', script=prog['script'])
            ctl.run_all(rng)
        for v in ctl.violations:
            if v['property'] == 'C02':
                v['property'] = 'C13'
                v['oracle'] = v['oracle'].replace('filelock.process_', 'filelock.survivor_')
        keep = getattr(ctl, 'keepalive', None)
        if keep:
            for lk in keep:
                try:
                    lk.release(force=True)
                except Exception:  # noqa
                    pass
        for c in ctl.children:
            if c.state == 'error':
                ctl.viol('HARNESS', 'harness.child_error', 'child script raised', f'child {c.idx}')
    finally:
        ctl.cleanup()
    return {'end': end, 'violations': ctl.violations, 'digest': ctl.log.hexdigest(), 'steps': ctl.steps, 'vtime': 0.0,
            'switches': [], 'nswitch': ctl.steps, 'edges': set(),
            'faults': {'sigkill.fired': ctl.kills,
                       'sigkill.while_holding': int(bool(killed_state and killed_state['in_critical'])),
                       'sigkill.with_contenders': int(bool(prog.get('contenders')) and ctl.kills > 0)},
            'probes': {'proc.processes': len(ctl.children)}, 'leaked': 0, 'nontrivial': True,
            'killed_at_line': killed_state['line'] if killed_state else None,
            'outcomes': [killed_state, [(c.idx, c.state, c.entries) for c in ctl.children]]}


def _holds(ctl, ch):
    return ch.in_critical
