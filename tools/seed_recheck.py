#!/venv/bin/python
"""
Re-run the registered checks against every stored seeded change (/verif/seeded/<id>/patch.diff) and rewrite
seeded/README.md.  The patch is applied to /repo (git apply), the property's quick check (then thorough, if quick
misses) is run with VERIF_OUT in a scratch directory, and the patch is undone straight afterwards.
  seed_recheck.py [--only ID ...] [--no-thorough]
"""
import os
import sys
import json
import glob
import shutil
import subprocess
import time

args = sys.argv[1:]
thorough = '--no-thorough' not in args
only = [a for a in args if not a.startswith('--')]


def sh(cmd):
    return subprocess.run(cmd, shell=True, capture_output=True, text=True)


assert sh('git -C /repo status --porcelain').stdout.strip() == '', '/repo not clean'
rows = []
for d in sorted(glob.glob('/verif/seeded/*/')):
    sid = os.path.basename(d.rstrip('/'))
    mp = os.path.join(d, 'meta.json')
    if not os.path.exists(mp):
        continue
    meta = json.load(open(mp))
    if only and sid not in only:
        rows.append(meta)
        continue
    prop = meta['breaks_property']
    checks = sorted({r['check'] for r in meta.get('ran', [])} | {prop})
    out = f'/tmp/seedout_{sid}'
    r = sh(f'git -C /repo apply {d}patch.diff')
    if r.returncode != 0:
        print(sid, 'PATCH DOES NOT APPLY', r.stderr[:200])
        meta['recheck'] = {'error': 'patch does not apply to the current tree'}
        json.dump(meta, open(mp, 'w'), indent=1)
        rows.append(meta)
        continue
    res = []
    try:
        for c in checks:
            for tier in (['quick', 'thorough'] if thorough else ['quick']):
                t0 = time.time()
                r = sh(f'cd /verif && VERIF_OUT={out} timeout 7000 /venv/bin/python -m simkit.run {c} --tier {tier}')
                viol = [l.strip() for l in r.stdout.split('\n') if l.strip().startswith('oracle=')]
                res.append({'check': c, 'tier': tier, 'exit': r.returncode, 'wall_s': round(time.time() - t0, 1),
                            'oracles': sorted({v.split()[0].split('=')[1] for v in viol})})
                print(f'{sid} {c} {tier}: exit={r.returncode} {res[-1]["oracles"]} ({time.time() - t0:.0f}s)')
                if r.returncode == 1:
                    break
    finally:
        sh('git -C /repo checkout -- .')
        shutil.rmtree(out, ignore_errors=True)
    meta['recheck'] = {'at_verif_commit': sh('git -C /verif rev-parse --short HEAD').stdout.strip(), 'results': res,
                       'caught_by': [f'{x["check"]}:{x["tier"]}' for x in res if x['exit'] == 1]}
    json.dump(meta, open(mp, 'w'), indent=1)
    rows.append(meta)
assert sh('git -C /repo status --porcelain').stdout.strip() == ''
with open('/verif/seeded/README.md', 'w') as f:
    f.write('# Seeded changes\n\nEach directory holds one breaking change written by a fresh sub-agent that was given only the text of a '
            'property and a scratch worktree (nothing from /verif): `patch.diff`, the agent\'s own demonstration `demo.py` (exit 0 on the '
            'unmodified tree, non-zero with the change), `notes.md`, and `meta.json` (what was confirmed, which checks were run against it, '
            'with which verdict). All changes keep the 42-test suite green. None is ever committed to /repo.\n\n'
            '| seed | property | confirmed (tests 42/42, demo fails only with the change) | caught by | oracles |\n|---|---|---|---|---|\n')
    for m in rows:
        rc = m.get('recheck') or {}
        caught = rc.get('caught_by') if rc else m.get('caught_by')
        oracles = sorted({o for x in rc.get('results', []) if x['exit'] == 1 for o in x['oracles']}) if rc else ''
        f.write(f'| {m["seed_id"]} | {m["breaks_property"]} | {m.get("confirmed")} | {", ".join(caught or []) or "**not caught**"} | '
                f'{", ".join(oracles) if oracles else ""} |\n')
print('wrote seeded/README.md')
