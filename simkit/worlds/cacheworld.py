"""
cacheworld — threadsafe_async_cache under 2..4 threads, each running its own virtual-time
loop, with line-level pre-emption inside aiuti/asyncio.py, loop life-cycle histories and
faults.  Serves C01 (single flight), C05 (termination / promptness), C06 (outcome
attribution) and C14 (keys, caller-supplied store).

A *program* is a JSON-able dict (threads, callers, invocation script, faults); `execute`
runs one program under one schedule and returns observations + oracle verdicts.
"""

import asyncio
import json
import re
from functools import partial

from .. import sched as S
from .. import env
from .. import tracedmap
from ..loop import SimLoop, install_policy, restore_policy
from ..shims import AsyncioSeams

Q = 0.125          # grid quantum (dyadic: sums are exact in floats)
SAFETY = 60.0      # the cache's safety time-out


class HarnessError(Exception):
    def __init__(self, inv):
        super().__init__(inv)
        self.inv = inv


class HarnessBaseError(BaseException):
    """A failure of the wrapped function that is not an Exception subclass."""

    def __init__(self, inv):
        super().__init__(inv)
        self.inv = inv


class Inv:
    __slots__ = ('i', 'key', 'args', 'loop', 'epoch', 'step', 't', 'task', 'exited', 'how',
                 'value', 'step_exit', 't_exit', 'ti', 'self_cancel')

    def __init__(self, i, key, loop, task):
        self.i = i
        self.key = key
        self.loop = loop
        self.epoch = loop.run_epoch
        self.task = task
        self.exited = False
        self.how = None
        self.value = None
        self.step_exit = None
        self.t_exit = None
        self.self_cancel = False


class Caller:
    __slots__ = ('ti', 'ci', 'spec', 'key', 'task', 'loop', 'state', 't_call', 'step_call',
                 't_done', 'step_done', 'outcome', 'cancel_requested', 'own_shutdown',
                 'loop_running_at_done', 'epoch')

    def __init__(self, ti, ci, spec):
        self.ti = ti
        self.ci = ci
        self.spec = spec
        self.key = spec['key']
        self.task = None
        self.loop = None
        self.state = 'new'
        self.outcome = None
        self.cancel_requested = False
        self.own_shutdown = False
        self.loop_running_at_done = None
        self.t_call = self.step_call = self.t_done = self.step_done = None
        self.epoch = None


class WorkerState:
    def __init__(self, ti):
        self.ti = ti
        self.loop = None
        self.shutting_down = False
        self.stopped_early = False
        self.returned_at = None
        self.error = None


# ---------------------------------------------------------------- probes
PROBE_PATTERNS = {
    'cache.locked_reprobe_hit': r'^\s+return _cache\[key\]\s*$',     # 2nd occurrence
    'cache.takeover_dead_loop': r'raise KeyError\s+# Invalidate loop',
    'cache.wait_for_other': r'do_caching = False',
    'cache.cross_loop_wait': r'wait_fut = run_coro_ts\(wait_event, caching_loop\)',
    'cache.run_coro_ts_closed': r'continue\s+# loop around and try again',
    'cache.safety_timeout_60': r'pass\s+# Need to loop around and check',
    'cache.waiter_cancel_path': r'waiter\.cancel\(\)',
}


def build_probes(path, patterns, pick=None):
    """Map regex probes to line numbers of the *current* source text."""
    out = {}
    unmapped = []
    lines = open(path).read().split('\n')
    for name, pat in patterns.items():
        rx = re.compile(pat)
        hits = [n + 1 for n, l in enumerate(lines) if rx.search(l)]
        if name == 'cache.locked_reprobe_hit':
            hits = hits[1:2]
        if not hits:
            unmapped.append(name)
            continue
        out[hits[0]] = name
    return out, unmapped


# --------------------------------------------------------------- programs
def _w(rng, pairs):
    tot = sum(w for _, w in pairs)
    x = rng.random() * tot
    for v, w in pairs:
        x -= w
        if x < 0:
            return v
    return pairs[-1][0]


def gen_program(rng, profile):
    """profile: 'c01' | 'c05' | 'c06' | 'c14' ; 'nofault' suffix disables faults."""
    base = profile.split('-')[0]
    faulty = not profile.endswith('-nofault')
    nthreads = _w(rng, [(2, 5), (3, 4), (4, 2)])
    nkeys = 1 if rng.random() < 0.7 else 2
    if base == 'c14':
        nkeys = rng.choice([2, 3])
    cache = _w(rng, [('default', 3), ('dict', 3), ('map', 4)])
    if base in ('c05', 'c06') and rng.random() < 0.2:
        cache = _w(rng, [('evict', 2), ('picky', 1)])        # caller-supplied mappings that lose entries / refuse values
    if base == 'c14':
        cache = _w(rng, [('evict', 5), ('lru', 3), ('map', 1), ('dict', 1)])
    durs = [(None, 3), (0, 3), (Q, 4), (1.0, 3), (70.0, 1)]
    threads = []
    for ti in range(nthreads):
        ncall = _w(rng, [(1, 4), (2, 4), (3, 2)])
        callers = []
        for ci in range(ncall):
            c = {'key': rng.randrange(nkeys), 'at': _w(rng, [(0.0, 6), (Q, 2), (1.0, 1), (2 * Q, 1)])}
            if faulty and base in ('c05', 'c06') and rng.random() < 0.25:
                if rng.random() < 0.5:
                    c['cancel_at'] = _w(rng, [(0.0, 2), (Q / 2, 3), (Q, 2), (0.5, 2), (1.5, 1), (61.0, 1)])
                else:
                    c['timeout'] = _w(rng, [(0.0, 1), (Q / 2, 3), (Q, 2), (0.5, 2), (1.5, 1), (61.0, 1)])
            callers.append(c)
        t = {'arrive': _w(rng, [(0.0, 8), (Q, 2), (1.0, 1), (61.0, 1)]),
             'callers': callers, 'life': 'await_all', 'end': _w(rng, [('shutdown', 6), ('close', 2), ('leave', 2)])}
        if faulty and rng.random() < (0.35 if base != 'c14' else 0.1):
            t['life'] = 'early'
            t['early_after'] = _w(rng, [(0.0, 3), (Q / 2, 3), (Q, 2), (0.5, 2), (1.0, 1)])
            if base in ('c05', 'c06') and rng.random() < 0.3:
                # run_until_complete returns with calls pending, the thread does something else for a while,
                # then runs the same loop again until everything pending has finished
                t['end'] = 'resume'
                t['resume_after'] = _w(rng, [(0.0, 2), (Q, 3), (1.0, 2), (5.0, 1)])
        if faulty and base in ('c05', 'c06') and rng.random() < 0.1:
            t['stop_at'] = _w(rng, [(0.0, 1), (Q / 2, 3), (Q, 2), (0.5, 2), (1.5, 1)])
        if rng.random() < 0.25:
            # the same thread later runs a second, fresh event loop (asyncio.run twice) with more callers
            t['round2'] = {'after': _w(rng, [(0.0, 4), (Q, 2), (1.0, 2), (61.0, 1)]),
                           'callers': [{'key': rng.randrange(nkeys), 'at': _w(rng, [(0.0, 5), (Q, 2)])}
                                       for _ in range(rng.randint(1, 2))]}
        threads.append(t)
    invs = []
    for _ in range(8):
        out = _w(rng, [('value', 8), ('none', 2)]) if base != 'c14' else 'value'
        if base not in ('c01', 'c14') or (faulty and base == 'c01'):
            out = _w(rng, [('value', 6), ('none', 1), ('raise', 2), ('raise_sync', 1), ('raise_cancelled', 0.6), ('raise_base', 0.4)])
        invs.append({'dur': _w(rng, durs), 'out': out})
    faults = []
    if faulty and base == 'c14':
        for t in threads:
            t['arrive'] = _w(rng, [(0.0, 4), (Q, 2), (1.0, 2), (2.0, 2)])
        for _ in range(_w(rng, [(1, 4), (2, 4), (3, 2)])):
            faults.append({'kind': 'evict', 'on': 'exit', 'inv': _w(rng, [(0, 5), (1, 3), (2, 2)]),
                           'delta': rng.randrange(1, 60), 'key': rng.randrange(nkeys)})
    elif faulty and cache in ('evict', 'picky'):
        for _ in range(_w(rng, [(1, 4), (2, 4), (3, 2)])):
            faults.append({'kind': 'evict', 'on': _w(rng, [('exit', 3), ('enter', 2)]), 'inv': _w(rng, [(0, 5), (1, 3), (2, 2)]),
                           'delta': rng.randrange(1, 120), 'key': rng.randrange(nkeys)})
    elif faulty and rng.random() < 0.5:
        for _ in range(_w(rng, [(1, 6), (2, 3), (3, 1)])):
            kind = 'stop'
            if base in ('c05', 'c06') and rng.random() < 0.3:
                kind = 'cancel'
            if base == 'c14':
                kind = 'evict'
            f = {'kind': kind, 'on': 'enter', 'inv': _w(rng, [(0, 6), (1, 3), (2, 1)]),
                 'delta': _w(rng, [(rng.randrange(1, 12), 3), (rng.randrange(1, 60), 4), (rng.randrange(1, 300), 2)])}
            if kind == 'cancel':
                f['thread'] = rng.randrange(nthreads)
                f['caller'] = rng.randrange(len(threads[f['thread']]['callers']))
            if kind == 'evict':
                f['on'] = 'exit'
                f['key'] = rng.randrange(nkeys)
            faults.append(f)
    return {'world': 'cache', 'profile': profile, 'cache': cache, 'nkeys': nkeys, 'form': 'deco' if rng.random() < 0.3 else 'direct',
            'threads': threads, 'invs': invs, 'faults': faults}


def key_args(k):
    """Model key -> (args, kwargs).  C14 profiles use richer signatures (see c14.py)."""
    return (k,), {}


# ------------------------------------------------------------------ world
class CacheWorld:

    def __init__(self, prog, sch, aa):
        self.prog = prog
        self.sch = sch
        self.aa = aa
        self.invs = []
        self.callers = {}
        self.ws = [WorkerState(i) for i in range(len(prog['threads']))]
        for ti, t in enumerate(prog['threads']):
            for ci, c in enumerate(t['callers']):
                self.callers[(ti, ci)] = Caller(ti, ci, c)
            for cj, c in enumerate((t.get('round2') or {}).get('callers', ())):
                ci = len(t['callers']) + cj
                self.callers[(ti, ci)] = Caller(ti, ci, c)
        self.violations = []
        self.fired = {}
        self.pending_faults = list(prog.get('faults', ()))
        self.end = None
        self.first_success = {}
        self.retaining = prog['cache'] in ('default', 'dict', 'map')      # evict / picky / lru lose or refuse entries
        self.cache = None
        self.cached = None
        self.harness_errors = []

    # ------------------------------------------------------------ helpers
    def viol(self, prop, oracle, sig, detail):
        self.violations.append({'property': prop, 'oracle': oracle, 'signature': sig,
                                'detail': detail, 'step': self.sch.step, 't': self.sch.clock})
        self.sch.log('VIOL', prop, oracle)

    def count(self, name, n=1):
        self.fired[name] = self.fired.get(name, 0) + n

    def is_live(self, J):
        L = J.loop
        return (not J.exited) and L.run_epoch == J.epoch and L.is_running()

    def live(self, key):
        return [J for J in self.invs if J.key == key and self.is_live(J)]

    def make_cache(self):
        kind = self.prog['cache']
        if kind == 'default':
            return None
        if kind == 'dict':
            return {}
        if kind == 'map':
            return tracedmap.RetainingMap()
        if kind == 'evict':
            return tracedmap.EvictingMap()
        if kind == 'picky':
            return tracedmap.PickyMap()
        if kind == 'lru':
            from lru import LRU
            return LRU(self.prog.get('lru_size', 2))
        raise ValueError(kind)

    # --------------------------------------------------- wrapped function
    def func(self, *args, **kwargs):
        """The wrapped callable: a plain function that validates and returns an awaitable (a common shape), so
        that it can also fail synchronously, at call time, before any coroutine exists."""
        script = self.prog['invs']
        spec = script[len(self.invs) % len(script)]
        if spec['out'] == 'raise_sync':
            sch = self.sch
            loop = asyncio.get_running_loop()
            key = self.model_key(args, kwargs)
            i = len(self.invs)
            I = Inv(i, key, loop, asyncio.current_task())
            I.args = (args, kwargs)
            I.step, I.t = sch.step, sch.clock
            I.exited = True
            I.how = 'raise'
            I.step_exit, I.t_exit = sch.step, sch.clock
            self.invs.append(I)
            sch.log('enter', i, key, loop.sim_id)
            sch.log('exit', i, 'raise_sync')
            self.count('func.raise_at_call_time')
            raise HarnessError(i)
        return self.afunc(*args, **kwargs)

    async def afunc(self, *args, **kwargs):
        sch = self.sch
        loop = asyncio.get_running_loop()
        key = self.model_key(args, kwargs)
        i = len(self.invs)
        script = self.prog['invs']
        spec = script[i % len(script)]
        I = Inv(i, key, loop, asyncio.current_task())
        I.args = (args, kwargs)
        I.step, I.t = sch.step, sch.clock
        others = self.live(key)
        self.invs.append(I)
        sch.log('enter', i, key, loop.sim_id)
        if others:
            J = others[0]
            self.viol('C01', 'cache.overlap',
                      'two invocations of one key live at once',
                      f'inv {i} (loop {loop.sim_id}) entered at step {sch.step} while inv {J.i} '
                      f'(loop {J.loop.sim_id}, entered step {J.step}) is still in progress')
        if self.retaining and key in self.first_success:
            K = self.first_success[key]
            self.viol('C01', 'cache.reinvoke_after_success',
                      'wrapped function invoked again after a successful return',
                      f'inv {i} of key {key} entered at step {sch.step}; inv {K.i} returned at step {K.step_exit}')
        self.arm('enter', i, loop)
        try:
            d = spec['dur']
            if d is not None:
                await asyncio.sleep(d)
            if spec['out'] == 'raise':
                raise HarnessError(i)
            if spec['out'] == 'raise_base':
                I.how = 'raise'
                raise HarnessBaseError(i)
            if spec['out'] == 'raise_cancelled':
                # the function awaited something that was cancelled: it fails with CancelledError, nobody cancelled the caller
                I.how = 'raise'
                I.self_cancel = True
                raise asyncio.CancelledError(('inv', i))
            # 'none': a falsy result that cannot carry a tag (None is a perfectly good value to cache)
            I.value = None if spec['out'] == 'none' else ('v', key, i)
            I.how = 'return'
            if key not in self.first_success:
                self.first_success[key] = I
            return I.value
        except HarnessError:
            I.how = 'raise'
            raise
        except asyncio.CancelledError:
            if I.how != 'raise':
                I.how = 'cancel'
            raise
        finally:
            I.exited = True
            if I.how is None:
                I.how = 'closed'
            I.step_exit, I.t_exit = sch.step, sch.clock
            if S.CUR is sch:
                sch.log('exit', i, I.how)
                self.arm('exit', i, loop)

    def model_key(self, args, kwargs):
        return args[0]

    # -------------------------------------------------------------- faults
    def arm(self, on, i, loop):
        if not self.pending_faults:
            return
        sch = self.sch
        keep = []
        for f in self.pending_faults:
            if f['on'] == on and f['inv'] == i:
                k = sch.step + max(1, int(f['delta']))
                while k in sch.at_step:
                    k += 1
                sch.at_step[k] = partial(self.fire, f, loop)
            else:
                keep.append(f)
        self.pending_faults = keep

    def fire(self, f, loop):
        kind = f['kind']
        sch = self.sch
        if kind == 'stop':
            if loop.is_closed() or not loop.is_running() or any(
                    W.loop is loop and W.shutting_down for W in self.ws):
                self.count('stop.noop')
                return
            hosting = any(self.is_live(J) for J in self.invs if J.loop is loop)
            loop.call_soon_threadsafe(loop.stop)
            sch.log('fault-stop', loop.sim_id)
            self.count('stop.fired')
            if hosting:
                self.count('stop.while_hosting_computation')
        elif kind == 'cancel':
            C = self.callers.get((f['thread'], f['caller']))
            if C is None or C.task is None or C.task.done() or C.loop is None \
                    or C.loop.is_closed() or not C.loop.is_running():
                self.count('cancel.noop')
                return
            self.request_cancel(C, threadsafe=True)
        elif kind == 'evict':
            if hasattr(self.cache, 'evict'):
                for a, J in [(J.args, J) for J in self.invs if J.key == f.get('key', 0)][:1]:
                    k = (a[0], frozenset(a[1].items()))
                    if self.cache.evict(k):
                        sch.log('fault-evict', f.get('key', 0))
                        self.count('evict.fired')
                        self.first_success.pop(J.key, None)
                        self.on_evict(J.key)

    def on_evict(self, key):
        pass

    def request_cancel(self, C, threadsafe=False):
        if C.task is None or C.task.done():
            self.count('cancel.noop')
            return
        C.cancel_requested = True
        self.sch.log('fault-cancel', C.ti, C.ci)
        self.count('cancel.fired.' + ('called' if C.state == 'called' else C.state))
        if threadsafe:
            C.loop.call_soon_threadsafe(C.task.cancel)
        else:
            C.task.cancel()

    # -------------------------------------------------------------- callers
    def call_args(self, C):
        return key_args(C.key)

    async def caller(self, C):
        sch = self.sch
        W = self.ws[C.ti]
        loop = asyncio.get_running_loop()
        C.task = asyncio.current_task()
        C.loop = loop
        C.epoch = loop.run_epoch
        spec = C.spec
        try:
            if spec['at']:
                await asyncio.sleep(spec['at'])
            if spec.get('cancel_at') is not None:
                loop.call_later(spec['cancel_at'], self.request_cancel, C)
            C.state = 'called'
            C.t_call, C.step_call = sch.clock, sch.step
            args, kwargs = self.call_args(C)
            sch.log('call', C.ti, C.ci, C.key)
            if spec.get('timeout') is not None:
                v = await asyncio.wait_for(self.cached(*args, **kwargs), spec['timeout'])
            else:
                v = await self.cached(*args, **kwargs)
            C.outcome = ('value', v)
        except (HarnessError, HarnessBaseError) as e:
            C.outcome = ('herr', e.inv)
        except tracedmap.MappingRefusal:
            C.outcome = ('mapping_refusal',)
        except asyncio.TimeoutError:
            C.outcome = ('timeout',)
        except asyncio.CancelledError:
            C.outcome = ('cancelled',)
        except GeneratorExit:
            C.outcome = ('closed',)
            raise
        except BaseException as e:  # noqa
            C.outcome = ('other', type(e).__name__, str(e)[:100])
        finally:
            if C.state == 'called':
                C.state = 'done'
            else:
                C.state = 'done-before-call'
            C.t_done, C.step_done = sch.clock, sch.step
            C.loop_running_at_done = loop.is_running() and S.CUR is sch
            C.own_shutdown = W.shutting_down
            if S.CUR is sch:
                sch.log('ret', C.ti, C.ci, C.outcome[0] if C.outcome else None)

    async def wmain(self, ti):
        spec = self.prog['threads'][ti]
        loop = asyncio.get_running_loop()
        if spec.get('stop_at') is not None:
            loop.call_later(spec['stop_at'], self.timed_stop, loop)
        if spec['arrive']:
            await asyncio.sleep(spec['arrive'])
        tasks = []
        for ci in range(len(spec['callers'])):
            C = self.callers[(ti, ci)]
            tasks.append(loop.create_task(self.caller(C)))
        if spec['life'] == 'await_all':
            await asyncio.gather(*tasks, return_exceptions=True)
        else:
            await asyncio.sleep(spec['early_after'])

    def timed_stop(self, loop):
        hosting = any(self.is_live(J) for J in self.invs if J.loop is loop)
        self.count('stop.fired')
        if hosting:
            self.count('stop.while_hosting_computation')
        self.sch.log('fault-stop', loop.sim_id)
        loop.stop()

    def _run_with_runner(self, runner, W, ti):
        sch = self.sch
        with runner:
            W.loop = runner.get_loop()
            try:
                runner.run(self.wmain(ti))
            except RuntimeError as e:
                if 'Event loop stopped before Future completed' not in str(e):
                    raise
                W.stopped_early = True
            finally:
                W.returned_at = sch.clock
                W.shutting_down = True
                sch.log('shutdown', ti)
                # the window between run_until_complete returning and shutdown
                sch.yield_point()

    def worker(self, ti):
        spec = self.prog['threads'][ti]
        W = self.ws[ti]
        sch = self.sch
        try:
            if spec['end'] == 'shutdown':
                runner = asyncio.Runner(loop_factory=SimLoop)
                try:
                    self._run_with_runner(runner, W, ti)
                except RuntimeError as e:
                    # an injected stop() that was still queued when the main coroutine finished
                    # fires inside Runner.close(): the shutdown itself is interrupted
                    if 'Event loop stopped before Future completed' not in str(e) or not W.shutting_down:
                        raise
                    self.count('stop.interrupted_shutdown')
            else:
                loop = SimLoop()
                asyncio.set_event_loop(loop)
                W.loop = loop
                try:
                    loop.run_until_complete(self.wmain(ti))
                except RuntimeError as e:
                    if 'Event loop stopped before Future completed' not in str(e):
                        raise
                    W.stopped_early = True
                W.returned_at = sch.clock
                sch.yield_point()
                if spec['end'] == 'resume' and not W.stopped_early:
                    if spec.get('resume_after'):
                        sch.sleep(spec['resume_after'])
                    sch.log('resume', ti)
                    self.count('loop.resumed_with_calls_pending')
                    pending = [C.task for C in self.callers.values() if C.ti == ti and C.task is not None and not C.task.done()]

                    async def drain():
                        await asyncio.gather(*pending, return_exceptions=True)
                    try:
                        loop.run_until_complete(drain())
                    except RuntimeError as e:
                        if 'Event loop stopped before Future completed' not in str(e):
                            raise
                    W.shutting_down = True
                    try:
                        asyncio.runners._cancel_all_tasks(loop)
                    except RuntimeError as e:
                        if 'Event loop stopped before Future completed' not in str(e):
                            raise
                        self.count('stop.interrupted_shutdown')
                    loop.close()
                if spec['end'] == 'close':
                    sch.log('close', ti)
                    loop.close()
                asyncio.set_event_loop(None)
            r2 = spec.get('round2')
            if r2 and not W.stopped_early:
                if r2['after']:
                    sch.sleep(r2['after'])
                sch.log('round2', ti)
                self.count('loop.second_round_on_fresh_loop')
                W.shutting_down = False
                n1 = len(spec['callers'])

                async def main2():
                    loop2 = asyncio.get_running_loop()
                    tasks = [loop2.create_task(self.caller(self.callers[(ti, n1 + cj)])) for cj in range(len(r2['callers']))]
                    await asyncio.gather(*tasks, return_exceptions=True)
                runner2 = asyncio.Runner(loop_factory=SimLoop)
                try:
                    with runner2:
                        W.loop = runner2.get_loop()
                        try:
                            runner2.run(main2())
                        finally:
                            W.shutting_down = True
                except RuntimeError as e:
                    if 'Event loop stopped before Future completed' not in str(e):
                        raise
        except S.Abort:
            raise
        except BaseException as e:  # noqa
            W.error = e
            self.harness_errors.append(f'worker {ti}: {type(e).__name__}: {e}')

    def arm_absolute(self):
        keep = []
        for f in self.pending_faults:
            if f.get('on') == 'abs':
                k = int(f['step'])
                while k in self.sch.at_step:
                    k += 1
                self.sch.at_step[k] = partial(self.fire_abs, f)
            else:
                keep.append(f)
        self.pending_faults = keep

    def fire_abs(self, f):
        W = self.ws[f['thread']]
        if W.loop is None:
            self.count('stop.noop')
            return
        self.fire(dict(f, kind='stop'), W.loop)

    def main(self):
        sch = self.sch
        self.arm_absolute()
        self.cache = self.make_cache()
        if self.prog.get('form') == 'deco':
            self.cached = self.aa.threadsafe_async_cache(cache=self.cache)(self.func)
        else:
            self.cached = self.aa.threadsafe_async_cache(self.func, cache=self.cache)
        ths = [sch.spawn(partial(self.worker, ti), f'w{ti}') for ti in range(len(self.ws))]
        sch.join(ths)

    # ------------------------------------------------------ C05 invariant
    def on_advance(self, old, new):
        for C in self.callers.values():
            if C.state != 'called':
                continue
            L = C.loop
            if not L.is_running() or L.run_epoch != C.epoch:
                continue
            key = C.key
            # for promptness an invocation is "in progress" whenever it has not exited and its loop is running, also after
            # the loop was stopped and run again (C01's stricter "counts as ended once its loop stops" is for overlap only)
            if any((not J.exited) and J.loop.is_running() for J in self.invs if J.key == key):
                continue
            excused = False
            for J in self.invs:
                if J.key != key:
                    continue
                # A loop that hosted a computation of this key stopped (or was closed) at time a, after the computation
                # began and while this caller was already waiting: the caller may rely on the 60 s safety net -- unless the
                # computation later *finished normally on that loop after it was run again* (then its waiters are owed a
                # wake-up and only a later stop of the loop can excuse a delay).
                L = J.loop
                for e, a in L.epoch_end.items():
                    if e < J.epoch or a < C.t_call or new > a + SAFETY:
                        continue
                    s_e = L.epoch_end_step.get(e, 0)
                    if J.exited and J.how in ('return', 'raise') and J.step_exit is not None and J.step_exit > s_e:
                        continue
                    excused = True
                    break
                if excused:
                    break
            if excused:
                self.count('idle.excused_by_safety_window')
                continue
            self.viol('C05', 'cache.idle_wait',
                      'caller sleeps while nothing is computed for it',
                      f'caller {C.ti}.{C.ci} (key {key}, called t={C.t_call}) is pending on a running loop '
                      f'while the clock jumps {old} -> {new} and no invocation of its key is in progress')
            C.state = 'called-flagged'

    # --------------------------------------------------------------- judge
    def judge(self):
        sch = self.sch
        end = self.end
        for e in self.harness_errors:
            self.viol('HARNESS', 'harness.error', 'harness error', e)
        # --- termination (C05)
        if end in ('quiescent', 'livelock'):
            stuck = [C for C in self.callers.values()
                     if C.state in ('called', 'called-flagged') and C.loop.is_running()]
            if stuck:
                C = stuck[0]
                what = 'deadlock' if end == 'quiescent' else 'livelock'
                self.viol('C05', 'cache.' + what,
                          f'{what}: a caller on a running loop never finishes',
                          f'{len(stuck)} caller(s) pending at end of run, e.g. {C.ti}.{C.ci} key {C.key} '
                          f'called at t={C.t_call}; run ended {end} at t={sch.clock} step {sch.step}')
            elif end == 'quiescent':
                self.viol('HARNESS', 'harness.quiescent', 'quiescent without a stuck caller',
                          repr([repr(t) for t in sch.threads]))
        elif end == 'stepcap':
            stuck = [C for C in self.callers.values()
                     if C.state in ('called', 'called-flagged') and C.loop.is_running()]
            if stuck:
                C = stuck[0]
                self.viol('C05', 'cache.never_finishes', 'a caller on a running loop keeps waiting for ever (virtual time advances)',
                          f'{len(stuck)} caller(s) still pending after {sch.step} steps at t={sch.clock}, e.g. {C.ti}.{C.ci} key {C.key} '
                          f'called at t={C.t_call}')
            else:
                self.viol('HARNESS', 'harness.stepcap', 'step cap hit while the clock advances', f'step {sch.step}')
        # --- values (C01 / C14)
        succ = {}
        for J in self.invs:
            if J.how == 'return':
                succ.setdefault(J.key, []).append(J)
        for C in self.callers.values():
            o = C.outcome
            if not o or o[0] != 'value':
                continue
            v = o[1]
            if v is None:
                if not any(J.value is None for J in succ.get(C.key, ())):
                    self.viol('C06', 'cache.value_not_from_success', 'value not produced by a successful invocation',
                              f'caller {C.ti}.{C.ci} key {C.key} got None but no successful invocation of its key returned None')
                continue
            ok = isinstance(v, tuple) and len(v) == 3 and v[0] == 'v'
            if not ok or v[1] != C.key:
                self.viol('C14', 'cache.foreign_value', 'caller received a value computed for another key',
                          f'caller {C.ti}.{C.ci} key {C.key} got {v!r}')
                continue
            if not any(J.value == v for J in succ.get(C.key, ())):
                self.viol('C06', 'cache.value_not_from_success', 'value not produced by a successful invocation',
                          f'caller {C.ti}.{C.ci} key {C.key} got {v!r}')
            if self.retaining and len(succ.get(C.key, ())) >= 1:
                first = min(succ[C.key], key=lambda J: J.step_exit)
                if v != first.value:
                    self.viol('C01', 'cache.different_result', 'callers of one key received different results',
                              f'caller {C.ti}.{C.ci} got {v!r}, first success was {first.value!r}')
        # --- outcome attribution (C06)
        for C in self.callers.values():
            o = C.outcome
            if C.state not in ('done',) or o is None:
                continue
            if not C.loop_running_at_done:
                continue                         # abandoned with its loop: not judged
            kind = o[0]
            if kind == 'value':
                continue
            if kind == 'mapping_refusal':
                if not any(J.task is C.task and J.how == 'return' for J in self.invs):
                    self.viol('C06', 'cache.foreign_failure', "caller received the supplied mapping's refusal of a value it did not compute",
                              f'caller {C.ti}.{C.ci} key {C.key}')
                continue
            if kind == 'herr':
                J = self.invs[o[1]]
                if J.task is not C.task and not self.task_is_inner(J.task, C):
                    self.viol('C06', 'cache.foreign_failure',
                              'caller received the exception of an invocation it did not perform',
                              f'caller {C.ti}.{C.ci} raised HarnessError of inv {J.i}')
                continue
            if kind in ('cancelled', 'timeout'):
                if C.cancel_requested or C.own_shutdown:
                    continue
                if kind == 'cancelled' and any(J.self_cancel and J.task is C.task for J in self.invs):
                    continue            # CancelledError raised by an invocation this very call performed
                if kind == 'timeout' and C.spec.get('timeout') is not None:
                    continue            # the time-out the harness itself put on this very call
                self.viol('C06', 'cache.foreign_cancel',
                          'caller cancelled although nobody cancelled it and its loop was not shut down',
                          f'caller {C.ti}.{C.ci} key {C.key} got {kind} at step {C.step_done} t={C.t_done}')
                continue
            if kind == 'other':
                self.viol('C06', 'cache.bookkeeping_exception:' + o[1],
                          f'caller observed {o[1]} from the cache\'s own bookkeeping',
                          f'caller {C.ti}.{C.ci} key {C.key} got {o[1]}: {o[2]} at step {C.step_done}')
        # --- nothing cached by failures (C06)
        store = self.cache if self.cache is not None else None
        if store is not None:
            try:
                items = list(store.items())
            except Exception:
                items = []
            for k, v in items:
                if v is None and any(J.value is None and J.how == 'return' for J in self.invs):
                    continue
                if not (isinstance(v, tuple) and len(v) == 3 and v[0] == 'v'
                        and any(J.value == v and J.how == 'return' for J in self.invs)):
                    self.viol('C06', 'cache.cached_nonresult', 'cache holds something no successful invocation returned',
                              f'{k!r}: {v!r}')
        # --- loops run by two threads (never expected here)
        for L in sch.loops:
            if L.double_run:
                self.viol('HARNESS', 'harness.double_run', 'loop run twice', repr(L))

    def task_is_inner(self, task, C):
        # with wait_for(..., timeout) the cached call still runs in the caller's own task on 3.12
        return False


# ------------------------------------------------------------------- run
_probe_cache = {}


def probes_for(aa):
    p = _probe_cache.get(aa.__file__)
    if p is None:
        p = _probe_cache[aa.__file__] = build_probes(aa.__file__, PROBE_PATTERNS)
    return p


def execute(prog, sspec, world_cls=CacheWorld, keep_log=False):
    aa, _ = env.aiuti()
    plines, unmapped = probes_for(aa)
    sch = S.Sched(seed=sspec.get('seed', 0), strategy=sspec.get('strategy', ('sticky', 0.1)),
                  switches=sspec.get('switches'), strict=sspec.get('strict', True),
                  step_cap=prog.get('step_cap', 40_000),
                  trace_files=(aa.__file__, tracedmap.__file__), keep_log=keep_log)
    sch.set_probes({aa.__file__: plines})
    sch.log('prog', json.dumps(prog, sort_keys=True))
    w = world_cls(prog, sch, aa)
    sch.on_advance = w.on_advance
    seams = AsyncioSeams(aa).install()
    sch.seams = seams
    install_policy()
    try:
        try:
            sch.run(w.main)
            w.end = 'normal'
        except S.Quiescent:
            w.end = 'quiescent'
        except S.StepCap as e:
            w.end = 'livelock' if e.clock_stuck else 'stepcap'
        except S.ReplayDiverged as e:
            w.end = 'diverged'
            w.harness_errors.append(f'REPLAY-DIVERGED {e}')
    finally:
        restore_policy()
        seams.restore()
    w.judge()
    for L in sch.loops:
        if not L.is_closed() and not L.is_running():
            try:
                L.close()
            except Exception:
                pass
    fired = dict(w.fired)
    return {
        'end': w.end,
        'violations': w.violations,
        'digest': sch.digest(),
        'steps': sch.step,
        'vtime': sch.clock,
        'switches': sch.switch_log,
        'nswitch': sch.nswitch,
        'nswitch_traced': sch.nswitch_traced,
        'edges': sch.edges,
        'faults': fired,
        'probes': dict(sch.probe_hits),
        'unmapped_probes': unmapped,
        'leaked': sch.leaked,
        'ninv': len(w.invs),
        'nontrivial': sch.nswitch_traced > 0 or any(k.endswith('.fired') or '.fired.' in k for k in fired),
        'log': sch.log_list if keep_log else None,
        'outcomes': [(C.ti, C.ci, C.key, C.outcome) for C in w.callers.values()],
        'inv_spans': [(J.i, J.step, J.step_exit, J.how) for J in w.invs],
    }
