#!/bin/bash
# usage: thorough_some.sh P1 P2 ...   (thorough tier of the named checks, scratch output kept under /tmp/thor_keep)
out=/tmp/thor_keep_$$; mkdir -p $out
for p in "$@"; do
  t0=$(date +%s)
  r=$(VERIF_OUT=$out timeout 7200 /venv/bin/python -m simkit.run $p --tier thorough 2>&1); code=$?
  echo "THOROUGH $p exit=$code $(( $(date +%s) - t0 ))s :: $(echo "$r" | grep '^\[' | head -1)"
  if [ $code -ne 0 ]; then echo "$r" | tail -15; fi
done
echo "replays (if any) kept in $out"; echo THOROUGH-FINISHED
