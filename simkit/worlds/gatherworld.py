"""
gatherworld — gather_excs / raise_first_exc on one virtual-time loop (C20).  The property has a
clock in it: finishing order of the awaitables is every permutation of input order (delay grid).
"""

import asyncio
import json

from .. import sched as S
from .. import env
from ..loop import SimLoop, install_policy, restore_policy

Q = 1.0 / 64


class Base(Exception):
    pass


class Sub(Base):
    pass


class Unrelated(Exception):
    pass


class BaseOnly(BaseException):
    pass


CLASSES = {'Base': Base, 'Sub': Sub, 'Unrelated': Unrelated, 'BaseOnly': BaseOnly,
           'Cancelled': asyncio.CancelledError}
ONLY = {'default': None, 'BaseException': BaseException, 'Exception': Exception, 'Base': Base, 'Sub': Sub,
        'Unrelated': Unrelated, 'BaseOnly': BaseOnly}
OUTCOMES = ('return', 'Base', 'Sub', 'Unrelated', 'BaseOnly', 'Cancelled')
KINDS = ('coro', 'task', 'future')
DELAYS = (0.0, Q, 2 * Q, 3 * Q, 5 * Q)


def gen_program(rng, profile, index=None):
    if profile.startswith('enum'):
        # mixed-radix decode of index: n awaitables, each (kind, outcome, delay in 3), then only, then mode
        n = int(profile[4:])
        x = index
        aws = []
        for _ in range(n):
            x, k = divmod(x, 3)
            x, o = divmod(x, 6)
            x, d = divmod(x, 3)
            aws.append({'kind': KINDS[k], 'out': OUTCOMES[o], 'delay': DELAYS[d]})
        x, on = divmod(x, len(ONLY))
        x, mode = divmod(x, 2)
        return {'world': 'gather', 'aws': aws, 'only': list(ONLY)[on], 'mode': ('gather', 'first')[mode]}
    n = rng.randint(0, 5)
    aws = [{'kind': rng.choice(KINDS), 'out': rng.choice(OUTCOMES) if rng.random() < 0.7 else 'return',
            'delay': rng.choice(DELAYS)} for _ in range(n)]
    return {'world': 'gather', 'aws': aws, 'only': rng.choice(list(ONLY)), 'mode': rng.choice(['gather', 'first']),
            'form': rng.choice(['list', 'tuple', 'generator', 'map'])}


def enum_size(n):
    return (3 * 6 * 3) ** n * len(ONLY) * 2


class GatherWorld:
    def __init__(self, prog, sch, aa):
        self.prog = prog
        self.sch = sch
        self.aa = aa
        self.violations = []
        self.done_at = {}
        self.excs = {}
        self.cancelled_by_other = []
        self.end = None
        self.finish_order = []

    def viol(self, oracle, sig, detail):
        self.violations.append({'property': 'C20', 'oracle': oracle, 'signature': sig, 'detail': detail,
                                'features': {}, 'step': self.sch.step, 't': self.sch.clock})

    async def body(self, i, spec):
        try:
            if spec['delay']:
                await asyncio.sleep(spec['delay'])
            else:
                await asyncio.sleep(0)
        except asyncio.CancelledError:
            self.cancelled_by_other.append(i)
            raise
        self.done_at[i] = (self.sch.clock, self.sch.step)
        self.finish_order.append(i)
        if spec['out'] != 'return':
            e = CLASSES[spec['out']](i)
            self.excs[i] = e
            raise e
        return ('r', i)

    def make(self, loop, i, spec):
        if spec['kind'] == 'coro':
            return self.body(i, spec)
        if spec['kind'] == 'task':
            return loop.create_task(self.body(i, spec))
        fut = loop.create_future()

        def resolve():
            self.done_at[i] = (self.sch.clock, self.sch.step)
            self.finish_order.append(i)
            if fut.done():
                return
            if spec['out'] == 'return':
                fut.set_result(('r', i))
            elif spec['out'] == 'Cancelled':
                self.excs[i] = asyncio.CancelledError(i)
                fut.cancel()
            else:
                e = CLASSES[spec['out']](i)
                self.excs[i] = e
                fut.set_exception(e)
        loop.call_later(spec['delay'], resolve)
        return fut

    async def amain(self):
        loop = asyncio.get_running_loop()
        p = self.prog
        specs = p['aws']
        aws = [self.make(loop, i, s) for i, s in enumerate(specs)]
        form = p.get('form', ('list', 'tuple', 'generator', 'map')[len(specs) % 4] if 'form' not in p else 'list')
        if form == 'tuple':
            aws = tuple(aws)
        elif form == 'generator':
            aws = (a for a in aws)              # Iterable[Awaitable]: a one-shot iterable is legal
        elif form == 'map':
            aws = map(lambda a: a, aws)
        only = ONLY[p['only']]
        kw = {} if only is None else {'only': only}
        filt = BaseException if only is None else only
        expected = [i for i, s in enumerate(specs) if s['out'] != 'return' and issubclass(CLASSES[s['out']], filt)]
        got = []
        first_yield_checked = False
        if p['mode'] == 'gather':
            async for exc in self.aa.gather_excs(aws, **kw):
                if not first_yield_checked:
                    first_yield_checked = True
                    missing = [i for i in range(len(specs)) if i not in self.done_at]
                    if missing:
                        self.viol('gather.yield_before_all_done', 'an exception was yielded before every awaitable finished',
                                  f'awaitables {missing} unfinished at first yield (t={self.sch.clock})')
                got.append(exc)
            self.compare(expected, got)
        else:
            raised = None
            try:
                r = await self.aa.raise_first_exc(aws, **kw)
                if r is not None:
                    self.viol('gather.first_return', 'raise_first_exc returned a value', repr(r))
            except BaseException as e:  # noqa
                raised = e
            self.compare(expected[:1], [raised] if raised is not None else [])
        missing = [i for i in range(len(specs)) if i not in self.done_at]
        if missing:
            self.viol('gather.not_run_to_completion', 'an awaitable was skipped or cancelled',
                      f'awaitables {missing} never finished; cancelled: {self.cancelled_by_other}')

    def compare(self, expected, got):
        ok = len(expected) == len(got)
        if ok:
            for i, g in zip(expected, got):
                e = self.excs.get(i)
                if isinstance(e, asyncio.CancelledError):
                    ok = ok and isinstance(g, asyncio.CancelledError)
                else:
                    ok = ok and g is e
        if not ok:
            self.viol('gather.wrong_exceptions', 'yielded/raised exceptions differ from the failures in input order',
                      f'expected awaitables {expected} -> {[repr(self.excs.get(i)) for i in expected]}, got {got!r}; '
                      f'finishing order {self.finish_order}')

    def main(self):
        loop = SimLoop()
        asyncio.set_event_loop(loop)
        try:
            loop.run_until_complete(self.amain())
        finally:
            asyncio.set_event_loop(None)
            loop.close()


def execute(prog, sspec=None):
    aa, _ = env.aiuti()
    sch = S.Sched(seed=0, strategy=('sticky', 0.0), step_cap=20_000, trace_files=(aa.__file__,))
    sch.log('prog', json.dumps(prog, sort_keys=True))
    w = GatherWorld(prog, sch, aa)
    install_policy()
    try:
        try:
            sch.run(w.main)
            w.end = 'normal'
        except S.Quiescent:
            w.end = 'quiescent'
            w.viol('gather.hang', 'gather_excs never finished', f't={sch.clock}')
        except S.StepCap:
            w.end = 'stepcap'
            w.viol('gather.hang', 'gather_excs spins', f'step {sch.step}')
    finally:
        restore_policy()
    order = tuple(w.finish_order)
    nfail = sum(1 for s in prog['aws'] if s['out'] != 'return')
    return {'end': w.end, 'violations': w.violations, 'digest': sch.digest(), 'steps': sch.step, 'vtime': sch.clock,
            'switches': [], 'nswitch': 0, 'edges': set(), 'faults': {}, 'leaked': 0,
            'probes': {'gather.out_of_order_finish': int(list(order) != sorted(order)), 'gather.multi_failure': int(nfail >= 2)},
            'nontrivial': len(prog['aws']) >= 2, 'outcomes': [order]}
