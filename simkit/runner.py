"""
simkit.runner — drives one property's check: seeded batches over forked workers,
aggregation, known-findings filter, minimisation, replay files, evidence.

A check module (simkit/checks/cNN.py) provides:

  PROPERTY, LEVEL, RULE, ASSUMPTIONS, REAL, STUB          constants
  batches(tier)      -> [ {'name': str, 'n': int, ...}, ... ]
  make_case(batch, seed:int) -> JSON-able case (program + fault plan + schedule spec)
  run_case(case)     -> result dict: violations, digest, steps, vtime, nontrivial, faults,
                         probes, switches (exact list of deviations from the default schedule)
  shrink(case)       -> iterable of simpler candidate cases           (optional)
  extra_evidence(agg) -> dict merged into coverage                    (optional)
  fixed_cases(tier)  -> [(name, case)] enumerated cases (fault enumeration) (optional)

Exit codes: 0 held / only known findings; 1 VIOLATION; 2 harness error.
"""

import os
import sys
import json
import time
import pickle
import struct
import hashlib
import importlib
import subprocess
import faulthandler
import select as _select

from . import env

VERIF = os.path.dirname(os.path.dirname(os.path.abspath(__file__)))
OUT = os.environ.get('VERIF_OUT', VERIF)     # evidence/ and replays/ live here (scratch dir for mutation runs)
DEFAULT_SEED = 20260926
PY = sys.executable


def derive_seed(verif_seed, prop, batch, i):
    h = hashlib.blake2b(f'{verif_seed}/{prop}/{batch}/{i}'.encode(), digest_size=8).digest()
    return struct.unpack('<Q', h)[0] >> 1


def load_check(prop):
    return importlib.import_module(f'simkit.checks.{prop.lower()}')


# ------------------------------------------------------------- known findings
def load_known():
    p = os.path.join(VERIF, 'known_findings.json')
    if not os.path.exists(p):
        return []
    return json.load(open(p)).get('findings', [])


def match_known(v, known):
    for k in known:
        if k.get('status') != 'known':
            continue
        if k['property'] != v['property'] or k['oracle'] != v['oracle']:
            continue
        feats = k.get('features') or {}
        vf = v.get('features') or {}
        if all(vf.get(a) == b for a, b in feats.items()):
            return k
    return None


# --------------------------------------------------------------- worker side
def _chunk_worker(chk, prop, verif_seed, batch, start, count, wfd, prop_filter):
    env.process_setup()
    faulthandler.enable()
    out = {'n': 0, 'steps': 0, 'vtime': 0.0, 'nontrivial_digests': [], 'digests': [],
           'faults': {}, 'probes': {}, 'ends': {}, 'nswitch': 0, 'edges': set(),
           'violating': [], 'samples': [], 'leaked': 0, 'unmapped': set(), 'strategies': {}}
    bname = batch['name']
    for i in range(start, start + count):
        seed = derive_seed(verif_seed, prop, bname, i)
        case = chk.make_case(dict(batch, index=i), seed)
        case['index'] = i
        case['batch'] = bname
        r = chk.run_case(case)
        out['n'] += 1
        out['steps'] += r.get('steps', 0)
        out['vtime'] += r.get('vtime', 0.0)
        out['nswitch'] += r.get('nswitch', 0)
        out['leaked'] += r.get('leaked', 0)
        d = int(r['digest'][:16], 16)
        out['digests'].append(d)
        if r.get('nontrivial'):
            out['nontrivial_digests'].append(d)
        for k, n in (r.get('faults') or {}).items():
            out['faults'][k] = out['faults'].get(k, 0) + n
        for k, n in (r.get('probes') or {}).items():
            out['probes'][k] = out['probes'].get(k, 0) + n
        e = r.get('end', 'normal')
        out['ends'][e] = out['ends'].get(e, 0) + 1
        st = json.dumps(case.get('sched', {}).get('strategy'))
        out['strategies'][st] = out['strategies'].get(st, 0) + 1
        if r.get('edges'):
            out['edges'] |= r['edges']
        for u in r.get('unmapped_probes') or ():
            out['unmapped'].add(u)
        vs = [v for v in r['violations'] if v['property'] in prop_filter]
        if vs:
            out['violating'].append((i, case, vs, r.get('switches')))
        if len(out['samples']) < 1 and r.get('nontrivial'):
            out['samples'].append({'case': case, 'steps': r.get('steps'), 'vtime': r.get('vtime'),
                                   'switches_taken': len(r.get('switches') or ()), 'end': e,
                                   'outcomes': repr(r.get('outcomes'))[:600]})
        env.between_runs()
    data = pickle.dumps(out)
    with os.fdopen(wfd, 'wb') as f:
        f.write(data)


class Pool:
    """Fork-per-chunk pool: isolation of leaked threads, hard wall limit per chunk."""

    def __init__(self, nproc, chunk_wall):
        self.nproc = nproc
        self.chunk_wall = chunk_wall
        self.live = {}      # rfd -> (pid, t0, meta, buf)

    def submit(self, fn, meta):
        r, w = os.pipe()
        sys.stdout.flush()
        sys.stderr.flush()
        pid = os.fork()
        if pid == 0:
            code = 0
            try:
                os.close(r)
                fn(w)
            except BaseException:  # noqa
                import traceback
                traceback.print_exc()
                code = 3
            finally:
                sys.stdout.flush()
                sys.stderr.flush()
                os._exit(code)
        os.close(w)
        self.live[r] = [pid, time.time(), meta, bytearray()]

    def wait_any(self):
        """Block until at least one chunk finishes; returns list of (meta, result|None, err)."""
        done = []
        while not done:
            rl, _, _ = _select.select(list(self.live), [], [], 1.0)
            now = time.time()
            for r in rl:
                rec = self.live[r]
                b = os.read(r, 1 << 20)
                if b:
                    rec[3] += b
                    continue
                os.close(r)
                del self.live[r]
                _, status = os.waitpid(rec[0], 0)
                if status != 0 or not rec[3]:
                    done.append((rec[2], None, f'worker exit status {status}'))
                else:
                    done.append((rec[2], pickle.loads(bytes(rec[3])), None))
            for r, rec in list(self.live.items()):
                if now - rec[1] > self.chunk_wall:
                    try:
                        os.kill(rec[0], 9)
                    except OSError:
                        pass
                    os.close(r)
                    del self.live[r]
                    os.waitpid(rec[0], 0)
                    done.append((rec[2], None, f'chunk exceeded wall limit {self.chunk_wall}s (watchdog)'))
        return done

    def kill_all(self):
        for r, rec in list(self.live.items()):
            try:
                os.kill(rec[0], 9)
                os.waitpid(rec[0], 0)
            except OSError:
                pass
            os.close(r)
        self.live.clear()


# ----------------------------------------------------------------- minimiser
def _same(vs, prop, oracle):
    return [v for v in vs if v['property'] == prop and v['oracle'] == oracle]


def minimise(chk, case, switches, prop, oracle, budget_runs=1500, budget_s=90):
    """Shrink program (check-provided candidates), then the pre-emption list (ddmin)."""
    t0 = time.time()
    runs = [0]

    def attempt(c):
        if runs[0] >= budget_runs or time.time() - t0 > budget_s:
            return None
        runs[0] += 1
        try:
            r = chk.run_case(c)
        except Exception:
            return None
        if _same(r['violations'], prop, oracle):
            return r
        return None

    def explicit(c, sw, strict=False):
        c = json.loads(json.dumps(c))
        c['sched'] = dict(c.get('sched') or {}, switches=[list(x) for x in sw], strict=strict)
        return c

    cur = explicit(case, switches)
    r = attempt(cur)
    if r is None:
        return None, runs[0]          # does not even reproduce under forced replay
    best_r = r
    cur = explicit(cur, r['switches'])
    # 1. program
    if hasattr(chk, 'shrink'):
        improved = True
        while improved:
            improved = False
            for cand in chk.shrink(cur):
                rr = attempt(cand)
                if rr is not None:
                    cur = explicit(cand, rr['switches'])
                    best_r = rr
                    improved = True
                    break
            if runs[0] >= budget_runs or time.time() - t0 > budget_s:
                break
    # 2. schedule: ddmin over the list of deviations from "stay on the current thread"
    sw = [list(x) for x in cur['sched']['switches']]
    n = 2
    while len(sw) >= 1 and runs[0] < budget_runs and time.time() - t0 <= budget_s:
        chunk = max(1, len(sw) // n)
        reduced = False
        for i in range(0, len(sw), chunk):
            cand_sw = sw[:i] + sw[i + chunk:]
            rr = attempt(explicit(cur, cand_sw))
            if rr is not None:
                sw = [list(x) for x in rr['switches']]
                best_r = rr
                n = max(n - 1, 2)
                reduced = True
                break
        if not reduced:
            if chunk == 1:
                break
            n = min(len(sw), n * 2)
    final = explicit(cur, sw, strict=True)
    rr = chk.run_case(final)
    if not _same(rr['violations'], prop, oracle):
        final = explicit(cur, best_r['switches'], strict=True)
        rr = chk.run_case(final)
        if not _same(rr['violations'], prop, oracle):
            return None, runs[0]
    final['sched']['switches'] = [list(x) for x in rr['switches']]
    return (final, rr), runs[0]


def write_replay(prop, verif_seed, case, result, v, tag):
    os.makedirs(os.path.join(OUT, 'replays'), exist_ok=True)
    h = hashlib.blake2b(json.dumps(case, sort_keys=True).encode(), digest_size=5).hexdigest()
    path = os.path.join(OUT, 'replays', f'{prop}-{v["oracle"].replace(":", "_").replace(".", "_")}-{h}.json')
    doc = {'property': prop, 'oracle': v['oracle'], 'signature': v['signature'], 'detail': v['detail'],
           'features': v.get('features'), 'verif_seed': verif_seed, 'origin': tag,
           'digest': result['digest'], 'case': case}
    with open(path, 'w') as f:
        json.dump(doc, f, indent=1, sort_keys=True)
    return path


def replay_file(path, quiet=False):
    """Re-run a replay file in this process.  Returns (reproduced, result)."""
    doc = json.load(open(path))
    chk = load_check(doc['property'])
    env.process_setup()
    r = chk.run_case(doc['case'])
    same = _same(r['violations'], doc['property'], doc['oracle'])
    if not quiet:
        print(f'replay {path}: end={r.get("end")} digest={r["digest"]} '
              f'(recorded {doc["digest"]}) steps={r.get("steps")}')
        for v in r['violations']:
            print('  ', v['property'], v['oracle'], '-', v['detail'])
    return bool(same), r, doc


def verify_replay_fresh(path):
    """Replay in a fresh interpreter under another hash seed; must reproduce exactly."""
    envv = dict(os.environ)
    envv['PYTHONHASHSEED'] = '12345'
    p = subprocess.run([PY, '-m', 'simkit.replay', path], cwd=VERIF, env=envv,
                       capture_output=True, text=True, timeout=300)
    return p.returncode == 1 and 'REPRODUCED' in p.stdout, p.stdout + p.stderr


# ---------------------------------------------------------------------- main
def run_check(prop, tier, verif_seed, nproc=None, max_wall=None, quiet=False):
    t_start = time.time()
    chk = load_check(prop)
    env.aiuti()
    env.process_setup()
    nproc = nproc or min(16, os.cpu_count() or 4)
    known = load_known()
    prop_filter = set(getattr(chk, 'REPORTS', (prop,))) | {'HARNESS'}
    batches = chk.batches(tier)
    chunk = getattr(chk, 'CHUNK', 200)
    pool = Pool(nproc, getattr(chk, 'CHUNK_WALL', 300))
    agg = {'n': 0, 'steps': 0, 'vtime': 0.0, 'faults': {}, 'probes': {}, 'ends': {}, 'nswitch': 0,
           'edges': set(), 'leaked': 0, 'unmapped': set(), 'strategies': {}}
    per_batch = {}
    digests = set()
    nontrivial = set()
    violating = []
    samples = []
    errors = []
    todo = []
    for b in batches:
        per_batch[b['name']] = {'n': 0, 'violations': 0}
        ch = b.get('chunk', chunk)
        for s in range(0, b['n'], ch):
            todo.append((b, s, min(ch, b['n'] - s)))
    todo.reverse()
    stop_new = False
    max_wall = max_wall or getattr(chk, 'MAX_WALL', {}).get(tier)
    while (todo and not stop_new) or pool.live:
        while todo and not stop_new and len(pool.live) < nproc:
            b, s, c = todo.pop()
            pool.submit(lambda w, b=b, s=s, c=c: _chunk_worker(chk, prop, verif_seed, b, s, c, w, prop_filter),
                        (b['name'], s, c))
        for meta, res, err in pool.wait_any():
            if err:
                errors.append(f'{meta}: {err}')
                stop_new = True
                continue
            pb = per_batch[meta[0]]
            pb['n'] += res['n']
            for k in ('n', 'steps', 'vtime', 'nswitch', 'leaked'):
                agg[k] += res[k]
            for k in ('faults', 'probes', 'ends', 'strategies'):
                for a, n in res[k].items():
                    agg[k][a] = agg[k].get(a, 0) + n
            agg['edges'] |= res['edges']
            agg['unmapped'] |= res['unmapped']
            digests.update(res['digests'])
            nontrivial.update(res['nontrivial_digests'])
            if len(samples) < 4:
                samples.extend(res['samples'][:1])
            for item in res['violating']:
                pb['violations'] += 1
                violating.append((meta[0],) + item)
                if any(v['property'] == 'HARNESS' or match_known(v, known) is None for v in item[2]):
                    stop_new = True          # an unlisted violation: no need to keep sampling
        if max_wall and time.time() - t_start > max_wall and todo:
            errors.append(f'wall cap {max_wall}s hit with {len(todo)} chunks left')
            stop_new = True
    pool.kill_all()

    # fault enumeration part (fixed cases), run in-process-parallel via the same pool
    enum_info = None
    if hasattr(chk, 'enumerate_faults') and not errors:
        enum_info = chk.enumerate_faults(tier, verif_seed, nproc)
        for item in enum_info.pop('violating', []):
            violating.append(item)

    # ----- classify violations
    violating.sort(key=lambda x: (x[0], x[1]))
    by_sig = {}
    harness = []
    for bname, i, case, vs, switches in violating:
        for v in vs:
            if v['property'] == 'HARNESS':
                harness.append((bname, i, v))
                continue
            by_sig.setdefault((v['property'], v['oracle']), []).append((bname, i, case, v, switches))
    exit_code = 0
    lines = []
    n_viol_reported = 0
    known_hits = {}
    for (p, oracle), items in sorted(by_sig.items()):
        unknown = [it for it in items if match_known(it[3], known) is None]
        for it in items:
            k = match_known(it[3], known)
            if k is not None:
                known_hits.setdefault(k['id'], [k, 0])[1] += 1
        if not unknown:
            continue
        bname, i, case, v, switches = unknown[0]
        n_viol_reported += 1
        exit_code = 1
        res = None
        try:
            res, nruns = minimise(chk, case, switches, p, oracle)
        except Exception as e:  # noqa
            errors.append(f'minimiser failed: {type(e).__name__}: {e}')
        if res is None:
            # fall back to the unminimised case under its recorded switches
            c2 = json.loads(json.dumps(case))
            c2['sched'] = dict(c2.get('sched') or {}, switches=[list(x) for x in switches or ()], strict=True)
            rr = chk.run_case(c2)
            if not _same(rr['violations'], p, oracle):
                errors.append(f'violation {p}/{oracle} at {bname}#{i} did not reproduce under its recorded schedule')
                continue
            res = (c2, rr)
        mcase, mr = res
        mv = _same(mr['violations'], p, oracle)[0]
        path = write_replay(p, verif_seed, mcase, mr, mv, f'{tier}/{bname}#{i}')
        ok, outp = verify_replay_fresh(path)
        if not ok:
            errors.append(f'replay file {path} did not reproduce in a fresh interpreter:\n{outp[-1500:]}')
            continue
        lines.append(f'VIOLATION property={p} replay={path}')
        lines.append(f'  oracle={oracle} seed={verif_seed} origin={tier}/{bname}#{i} '
                     f'({len(unknown)} violating run(s) of this class) :: {mv["detail"]}')
    for kid, (k, n) in sorted(known_hits.items()):
        lines.append(f'KNOWN-FINDING: property={k["property"]} {k["id"]}: {k["what_fails"]} [{n} run(s)]')
    for bname, i, v in harness[:5]:
        errors.append(f'harness error in {bname}#{i}: {v["oracle"]}: {v["detail"]}')

    wall = time.time() - t_start
    if errors:
        exit_code = 2 if exit_code == 0 else exit_code
    # ----- evidence
    cov = {
        'evaluations': agg['n'] + (enum_info or {}).get('evaluations', 0),
        'distinct_nontrivial': len(nontrivial) + (enum_info or {}).get('distinct_nontrivial', 0),
        'rule': chk.RULE,
        'samples': samples[:3] + (enum_info or {}).get('samples', [])[:2],
        'exhaustive': False,
        'batches': per_batch,
        'simulated_runs': agg['n'],
        'runs_per_hour': round(agg['n'] / max(wall, 1e-9) * 3600),
        'seeds_per_hour': round(agg['n'] / max(wall, 1e-9) * 3600),
        'scheduler_steps': agg['steps'],
        'simulated_seconds_covered': agg['vtime'],
        'context_switches': agg['nswitch'],
        'distinct_run_digests': len(digests),
        'run_set_fingerprint': '%016x' % _xor(digests),     # order-independent: equal for any worker count
        'switch_edge_coverage': len(agg['edges']),
        'faults_fired_by_kind': dict(sorted(agg['faults'].items())),
        'probes_hit': dict(sorted(agg['probes'].items())),
        'probes_stuck_at_zero': sorted(set(getattr(chk, 'PROBES_EXPECTED', ())) - set(agg['probes'])),
        'probes_unmapped': sorted(agg['unmapped']),
        'run_endings': agg['ends'],
        'strategies': agg['strategies'],
        'leaked_threads': agg['leaked'],
        'workers': nproc,
        'real_components': chk.REAL,
        'stub_components': chk.STUB,
        'known_findings_seen': {kid: n for kid, (k, n) in known_hits.items()},
        'harness_errors': errors[:10],
    }
    if enum_info:
        cov['fault_enumeration'] = enum_info
        if enum_info.get('exhaustive_dimension'):
            cov['exhaustive_dimension'] = enum_info['exhaustive_dimension']
    if hasattr(chk, 'extra_evidence'):
        extra = chk.extra_evidence(agg)
        for e in extra.pop('__errors__', []):
            errors.append(e)
            exit_code = exit_code or 2
            print('HARNESS-ERROR:', e)
        cov.update(extra)
    ev = {
        'property_id': prop, 'tier': tier, 'seed': verif_seed, 'level': chk.LEVEL,
        'coverage': cov, 'assumptions': chk.ASSUMPTIONS, 'wall_s': round(wall, 2),
        'violations': n_viol_reported,
    }
    os.makedirs(os.path.join(OUT, 'evidence'), exist_ok=True)
    with open(os.path.join(OUT, 'evidence', f'{prop}.json'), 'w') as f:
        json.dump(ev, f, indent=1, sort_keys=True, default=_jsonable)
    if not quiet:
        print(f'[{prop} {tier}] seed={verif_seed} runs={agg["n"]} distinct_nontrivial={len(nontrivial)} '
              f'steps={agg["steps"]} vtime={agg["vtime"]:.0f}s wall={wall:.1f}s '
              f'({cov["runs_per_hour"]} runs/h) ends={agg["ends"]}')
        print(f'  faults fired: {cov["faults_fired_by_kind"]}')
        print(f'  probes: {cov["probes_hit"]}  stuck-at-zero: {cov["probes_stuck_at_zero"]}')
        for l in lines:
            print(l)
        for e in errors:
            print('HARNESS-ERROR:', e)
    sys.stdout.flush()
    return exit_code


def _xor(ds):
    x = 0
    for d in ds:
        x ^= d
    return x


def _jsonable(o):
    if isinstance(o, (set, frozenset)):
        return sorted(o)
    return repr(o)
