#!/bin/bash
# "Never raise an alarm on code where the property holds": applies behaviour-preserving refactors (import styles,
# renamed private attributes / module globals) to a scratch copy of /repo's HEAD and runs every quick check on it.
set -e
tmp=$(mktemp -d /tmp/refac_XXXX)
git -C /repo archive HEAD aiuti | tar -x -C $tmp
/venv/bin/python - $tmp <<'PY'
import sys
d = sys.argv[1]
a = open(d + '/aiuti/asyncio.py').read()
for old, new in [("from time import sleep\n", "import time as _time_mod\n"),
                 ("        sleep(0)  # Force switching to other threads", "        _time_mod.sleep(0)  # Force switching to other threads"),
                 ("from threading import Lock\n", "import threading as _th\nLock = _th.Lock\n"),
                 ("_CROSS_LOOP_POOL", "_SHARED_POOL"), ("_LOOP_LOCKS_CREATE_LOCK", "_LOCK_TABLE_GUARD"),
                 ("self._getting", "self._pending_get"), ("self._waiting", "self._bg_task"), ("_retention_cache", "_recent"),
                 ("self._queue", "self._todo"), ("event_making_lock", "marker_lock"),
                 ("from concurrent.futures import ThreadPoolExecutor\n", "import concurrent.futures as _cfut\nThreadPoolExecutor = _cfut.ThreadPoolExecutor\n")]:
    assert old in a, old
    a = a.replace(old, new)
open(d + '/aiuti/asyncio.py', 'w').write(a)
f = open(d + '/aiuti/filelock.py').read()
for old, new in [("import time\n", "from time import time as _now, sleep as _nap\n"), ("time.time()", "_now()"),
                 ("time.sleep(poll_interval)", "_nap(poll_interval)"),
                 ("import threading\n", "import threading\nfrom threading import Lock as _L, RLock as _RL\n"),
                 ("self._thread_lock = threading.RLock()", "self._thread_lock = _RL()"),
                 ("self._thread_lock = threading.Lock()", "self._thread_lock = _L()"),
                 ("_lock_counter", "_depth"), ("_lock_file_fd", "_fd")]:
    assert old in f, old
    f = f.replace(old, new)
open(d + '/aiuti/filelock.py', 'w').write(f)
PY
bad=0
for p in $(/venv/bin/python -c "import json; print(' '.join(c['property_id'] for c in json.load(open('/verif/MANIFEST.json'))['checks']))"); do
  r=$(cd /verif && AIUTI_REPO=$tmp VERIF_OUT=$tmp/out /venv/bin/python -m simkit.run $p --tier quick 2>&1); code=$?
  echo "$p exit=$code $(echo "$r" | grep 'stuck-at-zero' | sed 's/.*stuck-at-zero/probes stuck at zero/')"
  if [ $code -ne 0 ]; then bad=1; echo "$r" | tail -8; fi
done
rm -rf $tmp
exit $bad
