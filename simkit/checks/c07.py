"""C07 — see DESIGN.md 3.7."""
from . import _buffer
from ._buffer import REAL, STUB, ASSUMPTIONS, shrink  # noqa
from ..worlds import bufferworld as bw

PROPERTY = 'C07'
LEVEL = 'exploration'
RULE = "as C03 with wait(cancel=True/False) issued at any grid instant (idle, collecting, timer armed, function running, concurrently with another wait) and foreign threads doing submit-then-wait_from_anywhere through the real ensure_aw; plus a shutdown batch: the owner's main coroutine returns at a grid instant and the real asyncio.Runner.close() must terminate (state at shutdown recorded: idle / collecting / timer_armed / function_running). Oracles: barrier at the step each wait() returns; no run ends quiescent with a wait() pending; shutdown terminates and the DaemonTask is done. distinct by run digest."
LEVEL_TEXT = "Seeded search over wait()/shutdown instants in virtual time and line-level interleavings of a foreign submit-then-wait thread; the barrier is evaluated at the exact scheduler step at which each wait() returns, and the scheduler's quiescence detector decides 'always returns' and 'shutdown terminates'."
LEVEL_NOTE = 'Trusted: as C03. Shutdown is the real Runner.close() sequence (cancel all tasks, drain, shutdown_asyncgens, close).'
TECHNIQUE = 'deterministic simulation: barrier oracle at wait() return, quiescence = hang detector, loop-shutdown fault injection at grid instants'
CHUNK = 200
DESIGN_REF = '3.7'
PROFILES = [('c07-solo', 5000), ('c07', 10000), ('c07-shutdown', 6000)]


def batches(tier):
    k = 1 if tier == 'quick' else 12
    return [{'name': n, 'n': c * k, 'profile': n} for n, c in PROFILES]


def make_case(batch, seed):
    return _buffer.make_case(batch['profile'], seed, batch.get('index'))


def run_case(case):
    return bw.execute(case['prog'], case.get('sched') or {}, props=('C07',))
