#!/venv/bin/python
"""
Evaluate a property-PRESERVING change written by a fresh sub-agent (the counterpart of seed_eval.py): the checks
must stay silent on it.
  benign_eval.py <seed_dir> <id> <property> [checks ...]
1. confirms in the agent's scratch worktree: test-suite passes with the change (42 passed), the agent's check.py
   exits 0 on both trees;
2. applies the patch to /repo (git apply), runs the quick tier of every check of the same component (or the given
   ones) with VERIF_OUT in a scratch directory, and undoes the patch straight afterwards (git checkout -- .);
3. stores patch.diff, notes.md, check.py and meta.json under /verif/benign/<id>/.
An alarm here is either a real break the agent overlooked (confirm with the replay) or a false alarm of ours.
"""
import os
import re
import sys
import json
import shutil
import subprocess
import time

GROUPS = {
    'cache': ['C01', 'C05', 'C06', 'C14', 'C15'],
    'buffer': ['C03', 'C07', 'C08', 'C15'],
    'batcher': ['C04', 'C09', 'C10', 'C11', 'C15'],
    'filelock': ['C02', 'C12', 'C13'],
    'iter': ['C16'], 'cross': ['C17', 'C05', 'C06'], 'gather': ['C20'],
}
OF = {'C01': 'cache', 'C05': 'cache', 'C06': 'cache', 'C14': 'cache', 'C15': None, 'C03': 'buffer', 'C07': 'buffer',
      'C08': 'buffer', 'C04': 'batcher', 'C09': 'batcher', 'C10': 'batcher', 'C11': 'batcher', 'C02': 'filelock',
      'C12': 'filelock', 'C13': 'filelock', 'C16': 'iter', 'C17': 'cross', 'C20': 'gather'}

args = sys.argv[1:]
seed_dir, sid, prop, *checks = args
if not checks:
    checks = GROUPS[OF[prop]] if OF.get(prop) else ['C15', 'C01', 'C14', 'C03', 'C08', 'C04', 'C10', 'C11']
wt = os.path.dirname(os.path.dirname(os.path.abspath(seed_dir)))
patch = os.path.join(seed_dir, 'patch.diff')
chk = os.path.join(seed_dir, 'check.py')
env = dict(os.environ, PYTHONPATH=wt)


def sh(cmd, **kw):
    return subprocess.run(cmd, shell=True, capture_output=True, text=True, **kw)


meta = {'id': sid, 'property': prop, 'source': 'fresh sub-agent asked for a property-preserving change', 'ran': []}
sh(f'git -C {wt} checkout -- aiuti')
if os.path.exists(chk):
    meta['check_py_clean_exit'] = sh(f'cd {wt} && timeout 300 /venv/bin/python {chk}', env=env).returncode
r = sh(f'git -C {wt} apply {patch}')
if r.returncode != 0:
    print('patch does not apply:', r.stderr)
    sys.exit(2)
t = sh(f'cd {wt} && timeout 1200 /venv/bin/python -m pytest -q -p no:cacheprovider --timeout=900 2>&1 | tail -3', env=env)
m = re.search(r'(\d+) passed', t.stdout)
meta['test_suite_with_change'] = t.stdout.strip().split('\n')[-1]
meta['tests_passed_with_change'] = int(m.group(1)) if m else 0
if os.path.exists(chk):
    meta['check_py_changed_exit'] = sh(f'cd {wt} && timeout 300 /venv/bin/python {chk}', env=env).returncode
sh(f'git -C {wt} checkout -- aiuti')
print(f'{sid}: tests={meta["test_suite_with_change"]!r} check.py clean={meta.get("check_py_clean_exit")} '
      f'changed={meta.get("check_py_changed_exit")}')
assert sh('git -C /repo status --porcelain').stdout.strip() == '', '/repo not clean'
out = f'/tmp/benignout_{sid}'
r = sh(f'git -C /repo apply {patch}')
assert r.returncode == 0, r.stderr
keep = f'/verif/benign/{sid}'
os.makedirs(keep, exist_ok=True)
try:
    for c in checks:
        t0 = time.time()
        r = sh(f'cd /verif && VERIF_OUT={out} timeout 3000 /venv/bin/python -m simkit.run {c} --tier quick')
        lines = [l for l in r.stdout.split('\n') if l.startswith('VIOLATION') or l.strip().startswith('oracle=')]
        meta['ran'].append({'check': c, 'tier': 'quick', 'exit': r.returncode, 'wall_s': round(time.time() - t0, 1),
                            'violation_lines': [l.replace(out, '<scratch>')[:600] for l in lines]})
        print(f'   {c} quick: exit={r.returncode} ({time.time() - t0:.0f}s)')
        for l in lines[:6]:
            print('      ', l[:420])
        if r.returncode != 0 and os.path.isdir(out + '/replays'):
            shutil.copytree(out + '/replays', keep + '/alarm_replays_' + c, dirs_exist_ok=True)
finally:
    sh('git -C /repo checkout -- .')
    shutil.rmtree(out, ignore_errors=True)
assert sh('git -C /repo status --porcelain').stdout.strip() == ''
meta['silent'] = all(x['exit'] == 0 for x in meta['ran'])
# the agent only had to preserve ITS property: an alarm of a neighbouring check may be a true break of that other property
meta['silent_own_property'] = all(x['exit'] == 0 for x in meta['ran'] if x['check'] == prop)
for f in ('patch.diff', 'notes.md', 'check.py'):
    if os.path.exists(os.path.join(seed_dir, f)):
        shutil.copy(os.path.join(seed_dir, f), keep)
json.dump(meta, open(os.path.join(keep, 'meta.json'), 'w'), indent=1)
print(f'{sid}: silent={meta["silent"]} own-property-check-silent={meta["silent_own_property"]}')
