"""
Determinism self-test.  For every check module and every batch, N derived seeds are run twice
in this process and once more in a fresh interpreter under another PYTHONHASHSEED; the run
digests (program + every logged event + every baton move + final step/clock) must be identical.

  python -m simkit.selftest [--smoke] [-n N] [C01 C05 ...]
"""
import os
import sys
import json
import subprocess

from . import env, runner

ALL = [f'C{i:02d}' for i in range(1, 21)]


def digests(props, n, seed):
    env.process_setup()
    out = {}
    for p in props:
        try:
            chk = runner.load_check(p)
        except ModuleNotFoundError:
            continue
        for b in chk.batches('quick'):
            for i in range(min(n, b['n'])):
                s = runner.derive_seed(seed, p, b['name'], i)
                case = chk.make_case(dict(b, index=i), s)
                r = chk.run_case(case)
                out[f'{p}/{b["name"]}/{i}'] = r['digest']
                env.between_runs()
    return out


def main():
    args = sys.argv[1:]
    if '--emit' in args:
        args.remove('--emit')
        n = int(args[0])
        seed = int(args[1])
        print(json.dumps(digests(args[2:], n, seed)))
        return
    n = 60
    if '--smoke' in args:
        args.remove('--smoke')
        n = 8
    if '-n' in args:
        i = args.index('-n')
        n = int(args[i + 1])
        del args[i:i + 2]
    props = [a.upper() for a in args] or ALL
    seed = int(os.environ.get('VERIF_SEED', runner.DEFAULT_SEED))
    assert sys.version_info >= (3, 12), sys.version_info
    env.aiuti()
    a = digests(props, n, seed)
    b = digests(props, n, seed)
    envv = dict(os.environ)
    envv['PYTHONHASHSEED'] = '777'
    p = subprocess.run([sys.executable, '-m', 'simkit.selftest', '--emit', str(n), str(seed)] + props,
                       cwd=runner.VERIF, env=envv, capture_output=True, text=True)
    if p.returncode != 0:
        print(p.stdout[-2000:], p.stderr[-4000:])
        print('SELFTEST: fresh interpreter failed')
        sys.exit(2)
    c = json.loads(p.stdout.strip().split('\n')[-1])
    bad = [k for k in a if a[k] != b.get(k) or a[k] != c.get(k)]
    print(f'selftest: {len(a)} runs x 3 (same process twice, fresh interpreter with PYTHONHASHSEED=777), '
          f'{len(bad)} digest mismatches')
    for k in bad[:10]:
        print('  MISMATCH', k, a[k], b.get(k), c.get(k))
    sys.exit(2 if bad else 0)


if __name__ == '__main__':
    main()
