#!/bin/bash
# Every claimed check, thorough tier, once, on a repo snapshot (AIUTI_REPO) with scratch output.
out=$(mktemp -d /tmp/thor_XXXX)
for p in $(/venv/bin/python -c "import json; print(' '.join(c['property_id'] for c in json.load(open('MANIFEST.json'))['checks']))"); do
  t0=$(date +%s)
  r=$(VERIF_OUT=$out timeout 7200 /venv/bin/python -m simkit.run $p --tier thorough 2>&1); code=$?
  echo "THOROUGH $p exit=$code $(( $(date +%s) - t0 ))s :: $(echo "$r" | grep '^\[' | head -1)"
  if [ $code -ne 0 ]; then echo "$r" | tail -15; fi
done
rm -rf $out
echo THOROUGH-FINISHED
