"""
simkit.shims — sim-aware stand-ins for the blocking primitives Aiuti reaches through
module-level names.  Each wraps the *real* object (real lock state, real queue, real
concurrent Future, real kernel flock); only the blocking part is replaced by
"try, else park in the scheduler".
"""

import os as _os
import sys
import errno
import queue as _queue
import threading as _threading
import concurrent.futures as _cf
import fcntl as _fcntl

from . import sched as _sched

_RealLock = _threading.Lock
_RealRLock = _threading.RLock


def _cur():
    s = _sched.CUR
    if s is not None and s.is_sim_thread():
        return s
    return None


class SimLock:
    """threading.Lock look-alike around a real lock."""

    def __init__(self):
        self._l = _RealLock()
        self.owner = None       # sim thread idx holding it (diagnostics)
        self.contended = 0

    def acquire(self, blocking=True, timeout=-1):
        if not blocking and timeout != -1:
            raise ValueError("can't specify a timeout for a non-blocking call")
        s = _cur()
        if s is None:                       # finalisation outside a run: never block
            self._l.acquire(False)
            return True
        s.yield_point()
        if self._l.acquire(False):
            self.owner = s.cur.idx
            return True
        if not blocking:
            return False
        self.contended += 1
        deadline = None if (timeout is None or timeout < 0) else s.clock + timeout
        while True:
            s.block(self._free, deadline, 'lock')
            if self._l.acquire(False):
                self.owner = s.cur.idx
                return True
            if deadline is not None and s.clock >= deadline:
                return False

    def _free(self):
        return not self._l.locked()

    def release(self):
        s = _cur()
        if s is None:
            try:
                self._l.release()
            except RuntimeError:
                pass
            return
        self._l.release()
        self.owner = None

    def locked(self):
        return self._l.locked()

    def __enter__(self):
        self.acquire()
        return True

    def __exit__(self, *a):
        self.release()


class SimRLock:
    """threading.RLock look-alike around a real RLock (ownership by real thread)."""

    def __init__(self):
        self._l = _RealRLock()
        self._owner = None
        self._depth = 0

    def acquire(self, blocking=True, timeout=-1):
        if not blocking and timeout != -1:
            raise ValueError("can't specify a timeout for a non-blocking call")
        s = _cur()
        if s is None:
            self._l.acquire(False)
            return True
        s.yield_point()
        if self._l.acquire(False):
            self._owner = s.cur.idx
            self._depth += 1
            return True
        if not blocking:
            return False
        deadline = None if (timeout is None or timeout < 0) else s.clock + timeout
        while True:
            s.block(self._free, deadline, 'rlock')
            if self._l.acquire(False):
                self._owner = s.cur.idx
                self._depth += 1
                return True
            if deadline is not None and s.clock >= deadline:
                return False

    def _free(self):
        return self._depth == 0

    def release(self):
        s = _cur()
        if s is None:
            try:
                self._l.release()
            except RuntimeError:
                pass
            return
        self._l.release()           # RuntimeError if not owner, like the real one
        self._depth -= 1
        if self._depth == 0:
            self._owner = None

    def __enter__(self):
        self.acquire()
        return True

    def __exit__(self, *a):
        self.release()


class SimFuture(_cf.Future):
    """concurrent.futures.Future whose blocking calls park in the scheduler."""

    def result(self, timeout=None):
        s = _cur()
        if s is not None and not self.done():
            s.block(self.done, None if timeout is None else s.clock + timeout, 'future')
            if not self.done():
                raise _cf.TimeoutError()
        return super().result(0 if s is not None else timeout)

    def exception(self, timeout=None):
        s = _cur()
        if s is not None and not self.done():
            s.block(self.done, None if timeout is None else s.clock + timeout, 'future')
            if not self.done():
                raise _cf.TimeoutError()
        return super().exception(0 if s is not None else timeout)


class SimPool:
    """ThreadPoolExecutor subset whose workers are sim threads.

    Workers persist (idle, parked) until shutdown, like the real executor's.
    """

    registry = []       # every pool created in the current run

    def __init__(self, max_workers=None, *a, **k):
        self.max_workers = max_workers or 32
        self.items = []
        self.workers = []
        self.idle = 0
        self._shutdown = False
        SimPool.registry.append(self)

    def submit(self, fn, *args, **kwargs):
        s = _cur()
        if s is None:
            raise RuntimeError('SimPool.submit outside a simulation run')
        if self._shutdown:
            raise RuntimeError('cannot schedule new futures after shutdown')
        f = SimFuture()
        self.items.append((f, fn, args, kwargs))
        if self.idle < len(self.items) and len(self.workers) < self.max_workers:
            w = s.spawn(self._worker, 'pool')
            self.workers.append(w)
        s.yield_point()
        return f

    def _has_work(self):
        return bool(self.items) or self._shutdown

    def _worker(self):
        s = _sched.CUR
        while True:
            if not self.items:
                if self._shutdown:
                    return
                self.idle += 1
                s.block(self._has_work, None, 'pool-idle')
                self.idle -= 1
                continue
            f, fn, args, kwargs = self.items.pop(0)
            if not f.set_running_or_notify_cancel():
                continue
            try:
                r = fn(*args, **kwargs)
            except BaseException as e:  # noqa
                if isinstance(e, _sched.Abort):
                    raise
                f.set_exception(e)
            else:
                f.set_result(r)
            del f, fn, args, kwargs
            s.yield_point()

    def live_workers(self):
        return [w for w in self.workers if w.state != _sched.DONE]

    def shutdown(self, wait=True, *, cancel_futures=False):
        self._shutdown = True
        if cancel_futures:
            for f, *_ in self.items:
                f.cancel()
            self.items.clear()
        s = _cur()
        if wait and s is not None:
            ws = list(self.workers)
            me = s.me()
            s.block(lambda: all(w.state == _sched.DONE or w is me for w in ws), None, 'pool-shutdown')

    def __enter__(self):
        return self

    def __exit__(self, *a):
        self.shutdown(wait=True)
        return False


class _SimQueue:
    """queue.Queue look-alike: get() parks instead of blocking."""

    def __init__(self, maxsize=0):
        self._q = _queue.Queue(maxsize)

    def put_nowait(self, x):
        s = _cur()
        if s is not None:
            s.yield_point()
        self._q.put_nowait(x)

    put = put_nowait

    def get_nowait(self):
        return self._q.get_nowait()

    def get(self, block=True, timeout=None):
        s = _cur()
        if s is None:
            return self._q.get(block, timeout)
        s.yield_point()
        while True:
            try:
                return self._q.get_nowait()
            except _queue.Empty:
                if not block:
                    raise
            deadline = None if timeout is None else s.clock + timeout
            s.block(self._nonempty, deadline, 'queue')
            if deadline is not None and s.clock >= deadline and self._q.empty():
                raise _queue.Empty

    def _nonempty(self):
        return not self._q.empty()

    def empty(self):
        return self._q.empty()

    def qsize(self):
        return self._q.qsize()


class QueueModule:
    Queue = _SimQueue
    SimpleQueue = _SimQueue
    Empty = _queue.Empty
    Full = _queue.Full


class SimEvent:
    """threading.Event look-alike: wait() parks in the scheduler."""

    def __init__(self):
        self._flag = False

    def is_set(self):
        return self._flag

    isSet = is_set

    def set(self):
        s = _cur()
        if s is not None:
            s.yield_point()
        self._flag = True

    def clear(self):
        self._flag = False

    def wait(self, timeout=None):
        s = _cur()
        if s is None:
            return self._flag
        s.yield_point()
        if not self._flag:
            s.block(self.is_set, None if timeout is None else s.clock + max(timeout, 0.0), 'event')
        return self._flag


class _Token:
    __slots__ = ('set',)

    def __init__(self):
        self.set = False


class SimCondition:
    """threading.Condition look-alike over a SimLock / SimRLock."""

    def __init__(self, lock=None):
        self._lock = lock if lock is not None else SimRLock()
        self.acquire = self._lock.acquire
        self.release = self._lock.release
        self._waiters = []

    def __enter__(self):
        return self._lock.__enter__()

    def __exit__(self, *a):
        return self._lock.__exit__(*a)

    def _release_all(self):
        n = 0
        if isinstance(self._lock, SimRLock):
            while self._lock._depth and self._lock._owner == _sched.CUR.cur.idx:
                self._lock.release()
                n += 1
        else:
            self._lock.release()
            n = 1
        return n

    def wait(self, timeout=None):
        s = _cur()
        if s is None:
            return True
        token = _Token()
        self._waiters.append(token)
        n = self._release_all()
        try:
            s.block(lambda: token.set, None if timeout is None else s.clock + max(timeout, 0.0), 'condition')
        finally:
            self._waiters = [w for w in self._waiters if w is not token]     # by identity
            for _ in range(n):
                self._lock.acquire()
        return token.set

    def wait_for(self, predicate, timeout=None):
        s = _cur()
        end = None if timeout is None or s is None else s.clock + timeout
        r = predicate()
        while not r:
            left = None
            if end is not None:
                left = end - s.clock
                if left <= 0:
                    break
            self.wait(left)
            r = predicate()
        return r

    def notify(self, n=1):
        s = _cur()
        if s is not None:
            s.yield_point()
        for token in self._waiters[:n]:
            token.set = True
        del self._waiters[:n]

    def notify_all(self):
        self.notify(len(self._waiters))

    notifyAll = notify_all


class SimSemaphore:
    """threading.Semaphore look-alike."""
    _bounded = False

    def __init__(self, value=1):
        if value < 0:
            raise ValueError('semaphore initial value must be >= 0')
        self._value = self._initial = value

    def acquire(self, blocking=True, timeout=None):
        s = _cur()
        if s is None:
            if self._value > 0:
                self._value -= 1
            return True
        s.yield_point()
        if self._value <= 0:
            if not blocking:
                return False
            deadline = None if timeout is None else s.clock + max(timeout, 0.0)
            while self._value <= 0:
                s.block(lambda: self._value > 0, deadline, 'semaphore')
                if self._value <= 0 and deadline is not None and s.clock >= deadline:
                    return False
        self._value -= 1
        return True

    __enter__ = acquire

    def release(self, n=1):
        if self._bounded and self._value + n > self._initial:
            raise ValueError('Semaphore released too many times')
        self._value += n

    def __exit__(self, *a):
        self.release()


class SimBoundedSemaphore(SimSemaphore):
    _bounded = True


class SimThreadObj:
    """threading.Thread look-alike whose body runs as a sim thread (subclassable: run())."""
    _count = 0

    def __init__(self, group=None, target=None, name=None, args=(), kwargs=None, *, daemon=None):
        SimThreadObj._count += 1
        self._target = target
        self._args = tuple(args)
        self._kwargs = dict(kwargs or {})
        self.name = name or f'SimThread-{SimThreadObj._count}'
        self.daemon = bool(daemon)
        self._t = None
        self._started = False

    def run(self):
        if self._target is not None:
            self._target(*self._args, **self._kwargs)

    def start(self):
        s = _cur()
        if s is None:
            raise RuntimeError('Thread.start outside a simulation run')
        if self._started:
            raise RuntimeError('threads can only be started once')
        self._started = True
        self._t = s.spawn(self.run, 'thread')
        s.yield_point()

    def is_alive(self):
        return self._t is not None and self._t.state != _sched.DONE

    @property
    def ident(self):
        return None if self._t is None or self._t.thread is None else self._t.thread.ident

    native_id = ident

    def getName(self):
        return self.name

    def setName(self, n):
        self.name = n

    def isDaemon(self):
        return self.daemon

    def setDaemon(self, d):
        self.daemon = bool(d)

    def join(self, timeout=None):
        s = _cur()
        if s is None or self._t is None:
            return
        if s.me() is self._t:
            raise RuntimeError('cannot join current thread')
        t = self._t
        s.block(lambda: t.state == _sched.DONE, None if timeout is None else s.clock + max(timeout, 0.0), 'thread-join')


def sim_sleep(d):
    """Replacement for ``time.sleep`` as imported by aiuti.asyncio (``sleep(0)`` spin)."""
    s = _cur()
    if s is None:
        return
    if d <= 0:
        s.spin_yield()
    else:
        s.sleep(d)


# ----------------------------------------------------------------- aiuti.asyncio
import time as _time


class _Seams:
    """Rebinds, for one run, every module-level name of an Aiuti module that refers to a source of nondeterminism.

    Matching is by *identity of the object the name is bound to*, not by the name, so import-style refactors
    (`from time import sleep`, `import threading as th`, ...) and trees that add or drop globals (fixes, mutants)
    need no harness change: threading.Lock/RLock, ThreadPoolExecutor, time.sleep/time/monotonic, the modules time /
    threading / queue (and os / fcntl for the file lock), queue.Queue; every module-level lock *instance* becomes a
    fresh SimLock, every executor instance a SimPool of the same size, and every private ALL_CAPS dict/set registry
    is replaced by an empty one of the same type.
    """

    def __init__(self, mod):
        self.mod = mod
        self.saved = {}
        self.plan = None
        self.module_pools = []
        self.deep_saved = []

    def table(self):
        tm = TimeModule()
        t = {
            id(_threading.Lock): SimLock, id(_threading.RLock): SimRLock, id(_cf.ThreadPoolExecutor): SimPool,
            id(_time.sleep): sim_sleep, id(_time.time): tm.time, id(_time.monotonic): tm.time,
            id(_time.perf_counter): tm.time, id(_time.time_ns): tm.time_ns, id(_time.monotonic_ns): tm.time_ns,
            id(_time.perf_counter_ns): tm.time_ns,
            id(_threading.Event): SimEvent, id(_threading.Condition): SimCondition, id(_threading.Semaphore): SimSemaphore,
            id(_threading.BoundedSemaphore): SimBoundedSemaphore, id(_threading.Thread): SimThreadObj,
            id(_queue.SimpleQueue): _SimQueue, id(_cf.Future): SimFuture,
            id(_time): tm, id(_threading): ThreadingModule(), id(_queue): QueueModule, id(_queue.Queue): _SimQueue,
        }
        if self.plan is not None:
            om, fm = OsModule(self.plan), FcntlModule(self.plan)
            t.update({id(_os): om, id(_fcntl): fm, id(_os.open): om.open, id(_os.close): om.close,
                      id(_fcntl.flock): fm.flock})
        return t

    def install(self, faults=None):
        m = self.mod
        if faults is not None:
            self.plan = FaultPlan(faults)
        table = self.table()
        lock_type = type(_RealLock())
        rlock_type = type(_RealRLock())
        SimPool.registry = []
        self.module_pools = []
        for n, v in list(vars(m).items()):
            if n.startswith('__'):
                continue
            new = table.get(id(v), None)
            if new is None:
                new = self._instance_standin(v, lock_type, rlock_type)
                if new is None and n.startswith('_') and n.isupper() and type(v) in (dict, set):
                    new = type(v)()
            if new is not None:
                self.saved[n] = v
                setattr(m, n, new)
            elif getattr(type(v), '__module__', None) == m.__name__ or (isinstance(v, type) and v.__module__ == m.__name__):
                # a module-level singleton of one of the module's own classes (a registry object, a manager ...), or such
                # a class itself: real locks / executors created at import time and kept in its attributes are replaced too
                self._deep(v, lock_type, rlock_type, 0, set())
        return self

    def _instance_standin(self, v, lock_type, rlock_type):
        """A fresh sim stand-in for an *instance* of a stdlib blocking primitive created at import time, else None."""
        if isinstance(v, lock_type):
            return SimLock()
        if isinstance(v, rlock_type):
            return SimRLock()
        if isinstance(v, _cf.ThreadPoolExecutor):
            new = SimPool(getattr(v, '_max_workers', 32))
            self.module_pools.append(new)
            return new
        if isinstance(v, _threading.Event):
            return SimEvent()
        if isinstance(v, _threading.Condition):
            inner = getattr(v, '_lock', None)
            return SimCondition(SimLock() if isinstance(inner, lock_type) else SimRLock())
        if isinstance(v, _threading.BoundedSemaphore):
            return SimBoundedSemaphore(getattr(v, '_initial_value', 1))
        if isinstance(v, _threading.Semaphore):
            return SimSemaphore(getattr(v, '_value', 1))
        if isinstance(v, (_queue.Queue, _queue.SimpleQueue)):
            return _SimQueue(getattr(v, 'maxsize', 0))
        return None

    def _deep(self, obj, lock_type, rlock_type, depth, seen):
        if id(obj) in seen or depth > 3:
            return
        seen.add(id(obj))
        try:
            attrs = dict(vars(obj))
        except TypeError:
            attrs = {}
        for sl in getattr(type(obj), '__slots__', ()) if not isinstance(obj, type) else ():
            if isinstance(sl, str) and hasattr(obj, sl):
                attrs[sl] = getattr(obj, sl)
        for n, v in attrs.items():
            if n.startswith('__'):
                continue
            new = self._instance_standin(v, lock_type, rlock_type)
            if new is None and type(v) in (dict, set) and n.startswith('_') and not isinstance(obj, type):
                new = type(v)()
            if new is not None:
                try:
                    setattr(obj, n, new)
                except (AttributeError, TypeError):
                    continue
                self.deep_saved.append((obj, n, v))
            elif getattr(type(v), '__module__', None) == self.mod.__name__ and not isinstance(v, type):
                self._deep(v, lock_type, rlock_type, depth + 1, seen)

    def shutdown_pools(self):
        """Module-level executors live for the whole process in real life; end their sim workers with the run."""
        for p in self.module_pools:
            p.shutdown(wait=True)

    def restore(self):
        for n, v in self.saved.items():
            setattr(self.mod, n, v)
        self.saved = {}
        for obj, n, v in reversed(self.deep_saved):
            try:
                setattr(obj, n, v)
            except (AttributeError, TypeError):
                pass
        self.deep_saved = []
        SimPool.registry = []


class AsyncioSeams(_Seams):
    pass


# ---------------------------------------------------------------- aiuti.filelock
class TimeModule:
    def time(self):
        s = _sched.CUR
        return s.clock if s is not None else 0.0

    monotonic = time
    perf_counter = time

    def time_ns(self):
        return int(self.time() * 1_000_000_000)

    monotonic_ns = time_ns
    perf_counter_ns = time_ns

    def __getattr__(self, name):        # strftime, gmtime, struct_time ...: no clock reading in them worth shimming
        return getattr(_time, name)

    def sleep(self, d):
        s = _cur()
        if s is not None:
            if d <= 0:
                s.spin_yield()
            else:
                s.sleep(d)


class ThreadingModule:
    Lock = SimLock
    RLock = SimRLock
    Event = SimEvent
    Condition = SimCondition
    Semaphore = SimSemaphore
    BoundedSemaphore = SimBoundedSemaphore
    Thread = SimThreadObj

    def __getattr__(self, name):
        return getattr(_threading, name)


class FaultPlan:
    """OSError injection by call index per syscall kind, plus an fd ledger."""

    def __init__(self, faults=()):
        # faults: iterable of (kind, index, errno_name)
        self.faults = {(k, i): e for k, i, e in faults}
        self.count = {'open': 0, 'flock': 0, 'unlock': 0, 'close': 0}
        self.fired = []
        self.open_fds = set()
        self.epoch = 0          # bumped on every unlock / close: wakes flock waiters

    def hit(self, kind):
        i = self.count[kind]
        self.count[kind] = i + 1
        e = self.faults.get((kind, i))
        if e is not None:
            self.fired.append((kind, i, e))
            return OSError(getattr(errno, e), _os.strerror(getattr(errno, e)))
        return None


class OsModule:
    def __init__(self, plan):
        self._plan = plan

    def __getattr__(self, name):
        return getattr(_os, name)

    def open(self, path, flags, mode=0o777, **kw):
        s = _cur()
        if s is not None:
            s.yield_point()
        e = self._plan.hit('open')
        if e is not None:
            raise e
        fd = _os.open(path, flags, mode, **kw)
        self._plan.open_fds.add(fd)
        return fd

    def close(self, fd):
        s = _cur()
        if s is not None:
            s.yield_point()
        e = self._plan.hit('close')
        # Linux semantics: the descriptor is gone even when close() reports an error
        _os.close(fd)
        self._plan.open_fds.discard(fd)
        self._plan.epoch += 1
        if e is not None:
            raise e


class FcntlModule:
    LOCK_EX = _fcntl.LOCK_EX
    LOCK_NB = _fcntl.LOCK_NB
    LOCK_UN = _fcntl.LOCK_UN
    LOCK_SH = _fcntl.LOCK_SH

    def __init__(self, plan):
        self._plan = plan

    def __getattr__(self, name):
        return getattr(_fcntl, name)

    def flock(self, fd, op):
        plan = self._plan
        s = _cur()
        if s is not None:
            s.yield_point()
        if op & _fcntl.LOCK_UN:
            e = plan.hit('unlock')
            if e is not None:
                raise e
            _fcntl.flock(fd, op)
            plan.epoch += 1
            return
        e = plan.hit('flock')
        if e is not None:
            raise e
        if op & _fcntl.LOCK_NB or s is None:
            return _fcntl.flock(fd, op)
        while True:
            try:
                return _fcntl.flock(fd, op | _fcntl.LOCK_NB)
            except BlockingIOError:
                pass
            seen = plan.epoch
            s.block(lambda: plan.epoch != seen, None, 'flock')


class FilelockSeams(_Seams):
    def install(self, faults=()):
        return super().install(faults)
