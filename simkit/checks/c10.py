"""C10 — see DESIGN.md 3.10."""
from . import _batcher
from ._batcher import REAL, STUB, ASSUMPTIONS, shrink  # noqa
from ..worlds import batcherworld as bw

PROPERTY = 'C10'
LEVEL = 'exploration'
RULE = 'each run = 2..12 calls with unique keys (every call enqueues) at arrival gaps on a dyadic grid around batch_timeout (incl. exact ties, which are not judged), max_batch_size 1-5 (optionally reassigned once or twice at grid instants; the limit is then judged where an item joins or where the group is handed over, and not at all for a group a shrink left over-full), max_concurrent_batches 1-3, batch durations 0 .. several batch_timeouts; the batch function is an async generator function or (a quarter of the runs) a plain callable that starts working when called and returns the async iterator; arrivals come from a sequential driver or as one timer per instant registered up front (the other order at exact ties with the timers of the batcher itself). Oracles over the batches seen by the harness function: non-empty, size <= limit, running executions <= limit at every start, concatenation in start order == arrival order, arrivals < batch_timeout apart share a batch unless full, start <= last arrival + batch_timeout unless all slots were busy. distinct by run digest.'
LEVEL_TEXT = 'Seeded exploration of arrival-time sequences and limits in exact virtual time; the history of batches (contents, start, end) is checked against the stated limits, order and dispatch deadline.'
LEVEL_NOTE = 'Trusted: as C04; the dispatch deadline is judged only where the concurrency explanation is unambiguous.'
TECHNIQUE = 'deterministic simulation: virtual-time event loop, arrival-grid exploration, history invariants over batches'
CHUNK = 500
DESIGN_REF = '3.10'
PROFILES = [('c10', 32000), ('c10-tie', 12000)]


def batches(tier):
    k = 1 if tier == 'quick' else 60
    return [{'name': n, 'n': c * k, 'profile': n} for n, c in PROFILES]


def make_case(batch, seed):
    return _batcher.make_case(batch['profile'], seed)


def run_case(case):
    return bw.execute(case['prog'], case.get('sched'), props=('C10',))
