"""
Determinism self-test.  For every check module and every batch, N derived seeds are run twice
in this process and once more in a fresh interpreter under another PYTHONHASHSEED; the run
digests (program + every logged event + every baton move + final step/clock) must be identical.

  python -m simkit.selftest [--smoke] [-n N] [C01 C05 ...]
"""
import os
import sys
import json
import subprocess

from . import env, runner

ALL = [f'C{i:02d}' for i in range(1, 21)]


def digests(props, n, seed):
    env.process_setup()
    out = {}
    for p in props:
        try:
            chk = runner.load_check(p)
        except ModuleNotFoundError:
            continue
        for b in chk.batches('quick'):
            for i in range(min(n, b['n'])):
                s = runner.derive_seed(seed, p, b['name'], i)
                case = chk.make_case(dict(b, index=i), s)
                r = chk.run_case(case)
                out[f'{p}/{b["name"]}/{i}'] = r['digest']
                env.between_runs()
    return out


def shim_selfcheck():
    """The look-alikes of the stdlib blocking primitives must behave like the originals in the cases the worlds rely on:
    a small scripted scenario per primitive, under several seeded schedules, with known outcomes."""
    from . import sched as S
    from .shims import SimCondition, SimEvent, SimSemaphore, SimThreadObj, SimLock, _SimQueue
    problems = []
    for seed in range(40):
        sch = S.Sched(seed=seed, strategy=('uniform',) if seed % 2 else ('sticky', 0.3), step_cap=20000)
        out = {'woken': [], 'timed_out': 0, 'sem': 0, 'ev': None, 'q': []}

        def main():
            cond = SimCondition(SimLock())
            state = {'tickets': 0}

            def waiter(name, timeout):
                with cond:
                    while state['tickets'] == 0:
                        if not cond.wait(timeout) and timeout is not None and state['tickets'] == 0:
                            out['timed_out'] += 1
                            return
                    state['tickets'] -= 1
                    out['woken'].append(name)
            ws = [SimThreadObj(target=waiter, args=('a', None)), SimThreadObj(target=waiter, args=('b', 0.25)),
                  SimThreadObj(target=waiter, args=('c', None))]
            for w in ws:
                w.start()
            sch.sleep(1.0)              # b's deadline passes first: its leaving must not take anybody else's place in line
            for _ in range(2):
                with cond:
                    state['tickets'] += 1
                    cond.notify()
                sch.sleep(0.125)
            for w in ws:
                w.join(5.0)
                if w.is_alive():
                    problems.append(f'seed {seed}: condition waiter {w.name} never woke')
            sem = SimSemaphore(2)
            ev = SimEvent()
            q = _SimQueue()

            def worker(i):
                with sem:
                    out['sem'] = max(out['sem'], 2 - sem._value)
                    sch.sleep(0.125)
                q.put(i)
                if i == 2:
                    ev.set()
            ts = [SimThreadObj(target=worker, args=(i,)) for i in range(3)]
            for t in ts:
                t.start()
            out['ev'] = ev.wait(5.0)
            for t in ts:
                t.join()
            out['q'] = sorted(q.get(timeout=1.0) for _ in range(3))
            out['ev_timeout'] = SimEvent().wait(0.25)
        try:
            sch.run(main)
        except S.Abort as e:
            problems.append(f'seed {seed}: {type(e).__name__}')
            continue
        if sorted(out['woken']) != ['a', 'c'] or out['timed_out'] != 1:
            problems.append(f'seed {seed}: condition woke {out["woken"]}, timed out {out["timed_out"]}')
        if out['sem'] > 2 or out['ev'] is not True or out['q'] != [0, 1, 2] or out['ev_timeout'] is not False:
            problems.append(f'seed {seed}: semaphore/event/queue {out}')
    return problems


def main():
    args = sys.argv[1:]
    if '--emit' in args:
        args.remove('--emit')
        n = int(args[0])
        seed = int(args[1])
        print(json.dumps(digests(args[2:], n, seed)))
        return
    n = 60
    if '--smoke' in args:
        args.remove('--smoke')
        n = 8
    if '-n' in args:
        i = args.index('-n')
        n = int(args[i + 1])
        del args[i:i + 2]
    props = [a.upper() for a in args] or ALL
    seed = int(os.environ.get('VERIF_SEED', runner.DEFAULT_SEED))
    assert sys.version_info >= (3, 12), sys.version_info
    env.aiuti()
    probs = shim_selfcheck()
    if probs:
        for x in probs[:10]:
            print('  SHIM', x)
        print(f'SELFTEST: {len(probs)} problem(s) in the stand-ins for stdlib blocking primitives')
        sys.exit(2)
    a = digests(props, n, seed)
    b = digests(props, n, seed)
    envv = dict(os.environ)
    envv['PYTHONHASHSEED'] = '777'
    p = subprocess.run([sys.executable, '-m', 'simkit.selftest', '--emit', str(n), str(seed)] + props,
                       cwd=runner.VERIF, env=envv, capture_output=True, text=True)
    if p.returncode != 0:
        print(p.stdout[-2000:], p.stderr[-4000:])
        print('SELFTEST: fresh interpreter failed')
        sys.exit(2)
    c = json.loads(p.stdout.strip().split('\n')[-1])
    bad = [k for k in a if a[k] != b.get(k) or a[k] != c.get(k)]
    print(f'selftest: {len(a)} runs x 3 (same process twice, fresh interpreter with PYTHONHASHSEED=777), '
          f'{len(bad)} digest mismatches')
    for k in bad[:10]:
        print('  MISMATCH', k, a[k], b.get(k), c.get(k))
    sys.exit(2 if bad else 0)


if __name__ == '__main__':
    main()
