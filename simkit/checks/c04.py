"""C04 — see DESIGN.md 3.4."""
from . import _batcher
from ._batcher import REAL, STUB, ASSUMPTIONS, shrink  # noqa
from ..worlds import batcherworld as bw

PROPERTY = 'C04'
LEVEL = 'exploration'
RULE = "each run = one seeded timed program of 2..10 calls (unique args with explicit keys from a domain of 2-4 so keys repeat, default keys, plain small-int args), arrival gaps on a dyadic grid straddling batch_timeout, max_batch_size 1-5, max_concurrent_batches 1-3, retention_timeout 0 / >0, class / function / decorator form, against a scripted batch function (per key: value incl. None/0/''/an exception class, Exception instance incl. subclass and StopIteration, omitted, raise mid-batch, yielded twice, unknown key; forward/reverse/shuffled order; per-item and per-batch durations). Oracle: every caller completes (quiescence = hang) with exactly the object the script produced for its key in the batch that carried its (identifiable) item. non-trivial = >=2 calls and >=1 batch; distinct by run digest (program + all events)."
LEVEL_TEXT = 'Seeded exploration of timed programs x batch-function scripts on one virtual-time loop; the expected outcome of every caller is computed from the script of the batch that carried its key and compared by object identity, and quiescence of the loop is a hang detector. Virtual time makes arrival/timer orders exact and repeatable.'
LEVEL_NOTE = 'Trusted: CPython 3.12.1 asyncio; harness batch function as observation point; joiners are attributed to the latest origin of their key in program order.'
TECHNIQUE = 'deterministic simulation: virtual-time event loop, scripted batch-function faults, per-caller expected-outcome oracle, quiescence hang detector'
CHUNK = 500
DESIGN_REF = '3.4'
PROFILES = [('c04', 32000), ('c04-hot', 12000)]


def batches(tier):
    k = 1 if tier == 'quick' else 60
    return [{'name': n, 'n': c * k, 'profile': n} for n, c in PROFILES]


def make_case(batch, seed):
    return _batcher.make_case(batch['profile'], seed)


def run_case(case):
    return bw.execute(case['prog'], case.get('sched'), props=('C04',))
