"""Regenerates /verif/MANIFEST.json from the check modules (python -m simkit.mkmanifest)."""
import os
import json
import importlib

VERIF = os.path.dirname(os.path.dirname(os.path.abspath(__file__)))
ALL = [f'C{i:02d}' for i in range(1, 21)]
NA = {
    'C18': 'split/exhaust are pure functions of their arguments: no thread, task, clock, I/O, fault or crash point; '
           '"every consumption order of the two iterators" is an input sequence, not a schedule (DESIGN.md section 0)',
    'C19': 'parse_to_dict is a pure function of its arguments: nothing for a simulator to schedule or fault '
           '(DESIGN.md section 0)',
}
QUICK_CAP = {'default': 900}
THOROUGH_CAP = {'default': 7200}


def main():
    checks = []
    na = []
    for p in ALL:
        if p in NA:
            na.append({'property_id': p, 'reason': NA[p]})
            continue
        try:
            m = importlib.import_module(f'simkit.checks.{p.lower()}')
        except ModuleNotFoundError:
            na.append({'property_id': p, 'reason': 'not claimed yet: check under construction (see DESIGN.md section 3)'})
            continue
        checks.append({
            'property_id': p,
            'quick_cmd': f'timeout {QUICK_CAP.get(p, QUICK_CAP["default"])} /venv/bin/python -m simkit.run {p} --tier quick',
            'thorough_cmd': f'timeout {THOROUGH_CAP.get(p, THOROUGH_CAP["default"])} /venv/bin/python -m simkit.run {p} --tier thorough',
            'evidence_file': f'/verif/evidence/{p}.json',
            'replay_cmd_template': '/venv/bin/python -m simkit.replay {path}',
            'engine': 'simkit',
            'level_claimed': {'category': m.LEVEL, 'text': m.LEVEL_TEXT, 'design_ref': m.DESIGN_REF},
            'level_note': m.LEVEL_NOTE,
            'technique': m.TECHNIQUE,
        })
    man = {
        'version': 1,
        'setup_cmd': 'cd /verif && timeout 600 /venv/bin/python -m simkit.selftest --smoke',
        'hooks': {
            'guard': 'AIUTI_VERIF',
            'enable': 'no source hook exists or is needed: simkit rebinds module-level names of aiuti.asyncio / '
                      'aiuti.filelock (Lock, ThreadPoolExecutor, sleep, queue, time, threading, os, fcntl) at run time, '
                      'in the checking process only (DESIGN.md 2.1); the guard variable is reserved and unused',
            'baseline_off_cmd': 'cd /repo && /venv/bin/python -m pytest -ra -q -p no:cacheprovider --timeout=900 '
                                '--continue-on-collection-errors',
            'source_commits': [],
            'add_only': True,
        },
        'engines': [{
            'name': 'simkit', 'path': '/verif/simkit',
            'serves_properties': [c['property_id'] for c in checks],
            'kind_free_text': 'deterministic simulation with fault injection: seeded baton scheduler over real threads '
                              '(line-level pre-emption via sys.settrace), virtual-time asyncio loop, shims for locks / pools / '
                              'queues / clocks / flock, lock-stepped child processes with SIGKILL; seeded search over programs, '
                              'fault plans and schedules; ddmin minimisation; replay files',
        }],
        'checks': checks,
        'not_applicable': na,
        'notes': 'All checks honour VERIF_SEED (default 20260926) and VERIF_TIER; exit 0 held / 1 VIOLATION / 2 harness error. '
                 'Checks import Aiuti from /repo working tree (AIUTI_REPO overrides, used only for scratch worktrees).',
    }
    with open(os.path.join(VERIF, 'MANIFEST.json'), 'w') as f:
        json.dump(man, f, indent=1)
    print('claimed:', [c['property_id'] for c in checks])
    print('not applicable / not yet:', [n['property_id'] for n in na])


if __name__ == '__main__':
    main()
