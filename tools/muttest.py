#!/venv/bin/python
"""
Sensitivity helper (not a registered check): apply one textual mutation to a scratch copy of
/repo (outside /repo and /verif), run quick checks against it via AIUTI_REPO, print the verdicts,
remove the copy.   usage: muttest.py NAME FILE 'old' 'new' PROP [PROP...]   (old must occur once)
"""
import os
import re
import sys
import shutil
import subprocess
import tempfile

name, rel, old, new, *props = sys.argv[1:]
tmp = tempfile.mkdtemp(prefix=f'mut_{name}_', dir='/tmp')
try:
    shutil.copytree('/repo/aiuti', os.path.join(tmp, 'aiuti'))
    p = os.path.join(tmp, rel)
    s = open(p).read()
    if s.count(old) != 1:
        print(f'MUTATION {name}: pattern occurs {s.count(old)} times'); sys.exit(3)
    open(p, 'w').write(s.replace(old, new))
    env = dict(os.environ, AIUTI_REPO=tmp, VERIF_OUT=os.path.join(tmp, 'out'))
    for pr in props:
        r = subprocess.run(['/venv/bin/python', '-m', 'simkit.run', pr, '--tier', 'quick'], cwd='/verif', env=env,
                           capture_output=True, text=True)
        lines = [l for l in r.stdout.split('\n') if l.startswith(('VIOLATION', '  oracle', 'HARNESS', 'KNOWN'))]
        head = [l for l in r.stdout.split('\n') if l.startswith('[')]
        print(f'MUTANT {name} {pr}: exit={r.returncode} {head[0] if head else ""}')
        for l in lines[:6]:
            print('    ', l[:260])
        if r.returncode not in (0, 1):
            print(r.stdout[-1500:], r.stderr[-1500:])
finally:
    shutil.rmtree(tmp, ignore_errors=True)
