"""
flworld — FileLock in one process.

(seq)  C12: sequential histories over <=2 FileLock objects x 2 threads on one path, checked
       operation by operation against an executable reference model; real kernel flock, real
       Lock/RLock objects, virtual clock, OSError injection by call index, fd ledger.
(conc) C02(a): 2-4 threads over 1-2 objects contending through acquire()/acquire_ctx()/with,
       line-level pre-emption in aiuti/filelock.py; occupancy invariant in a harness-owned
       critical section.
"""

import os
import json
import errno
import fcntl
import shutil
import tempfile
from functools import partial

from .. import sched as S
from .. import env
from ..shims import FilelockSeams

POLL = 0.05
SMALL = 0.25

_scratch = {}


def scratch_dir():
    d = _scratch.get(os.getpid())
    if d is None:
        base = '/dev/shm' if os.path.isdir('/dev/shm') and os.access('/dev/shm', os.W_OK) else None
        d = tempfile.mkdtemp(prefix=f'simkit-fl-{os.getpid()}-', dir=base)
        _scratch.clear()
        _scratch[os.getpid()] = d
        import atexit
        atexit.register(shutil.rmtree, d, True)
    return d


_run_no = [0]


def fresh_path():
    _run_no[0] += 1
    return os.path.join(scratch_dir(), f'l{_run_no[0]}.lock')


def nfds():
    return len(os.listdir('/proc/self/fd'))


def kernel_locked(path):
    """Ask the kernel: is somebody holding the flock on this path?  (harness-side probe, real os)"""
    fd = os.open(path, os.O_RDWR | os.O_CREAT)
    try:
        try:
            fcntl.flock(fd, fcntl.LOCK_EX | fcntl.LOCK_NB)
        except OSError:
            return True
        fcntl.flock(fd, fcntl.LOCK_UN)
        return False
    finally:
        os.close(fd)


def _w(rng, pairs):
    tot = sum(w for _, w in pairs)
    x = rng.random() * tot
    for v, w in pairs:
        x -= w
        if x < 0:
            return v
    return pairs[-1][0]


class _BodyError(BaseException):
    """Raised by the body of a with-block (user code), not an Exception subclass."""


# =============================================================== reference model
class Model:
    """What the statement says a FileLock does.  threads 0/1, objects 0/1, one path."""

    def __init__(self, nobj, reentrant, ctor_timeout):
        self.nobj = nobj
        self.reentrant = reentrant
        self.ctor_timeout = ctor_timeout
        self.holder = [None] * nobj     # thread holding object o (in-process + OS lock)
        self.depth = [0] * nobj
        self.path_holder = None         # object holding the OS lock

    def copy(self):
        m = Model(self.nobj, self.reentrant, self.ctor_timeout)
        m.holder = list(self.holder)
        m.depth = list(self.depth)
        m.path_holder = self.path_holder
        return m

    def norm(self, blocking, timeout):
        """Argument normalisation as documented: returns (mode, t): mode in nb | forever | timed."""
        if timeout is None:
            timeout = self.ctor_timeout if blocking else -1
        else:
            blocking = blocking if timeout < 0 else True
        if not blocking:
            return 'nb', 0.0
        if timeout < 0:
            return 'forever', None
        return 'timed', timeout

    def try_acquire(self, t, o, blocking=True, timeout=None, poll_interval=POLL):
        """-> (result, max_elapsed, min_elapsed) ; result True/False/'hang'."""
        mode, tm = self.norm(blocking, timeout)
        if self.holder[o] is not None and self.reentrant and self.holder[o] == t:
            self.depth[o] += 1
            return True, 0.0, 0.0
        if self.holder[o] is not None:
            # in-process lock busy (stage 1)
            if mode == 'nb':
                return False, 0.0, 0.0
            if mode == 'forever':
                return 'hang', None, None
            return False, tm, tm
        if self.path_holder is not None and self.path_holder != o:
            # OS lock busy (stage 2)
            if mode == 'nb':
                return False, 0.0, 0.0
            if mode == 'forever':
                return 'hang', None, None
            return False, tm + poll_interval, 0.0
        self.holder[o] = t
        self.depth[o] = 1
        self.path_holder = o
        return True, 0.0, 0.0

    def release(self, t, o, force=False):
        if self.holder[o] is None:
            return
        self.depth[o] -= 1
        if self.depth[o] <= 0 or force:
            self.depth[o] = 0
            self.holder[o] = None
            self.path_holder = None

    def is_locked(self, o):
        return self.holder[o] is not None


ACQ_VARIANTS = {
    'acq':        {'blocking': True, 'timeout': None},
    'acq_nb':     {'blocking': False, 'timeout': None},
    'acq_t0':     {'blocking': True, 'timeout': 0},
    'acq_ts':     {'blocking': True, 'timeout': SMALL},
    'acq_nb_ts':  {'blocking': False, 'timeout': SMALL},     # timeout overrides blocking=False
    'acq_neg':    {'blocking': True, 'timeout': -1},
    'acq_nb_neg': {'blocking': False, 'timeout': -1},
    'acq_ts_fastpoll': {'blocking': True, 'timeout': SMALL, 'poll_interval': 0.01},
    'acq_t0_slowpoll': {'blocking': True, 'timeout': 0, 'poll_interval': 0.5},
}
SMALL_ALPHABET = ['acq_nb', 'acq_ts', 'rel', 'rel_force']       # per thread, one object
FULL_ALPHABET = list(ACQ_VARIANTS) + ['ctx', 'ctx_nb', 'ctx_ts', 'with', 'rel', 'rel_force', 'with_raise', 'ctx_raise']


def op_would_hang(model, t, o, name):
    m = model.copy()
    if name in ACQ_VARIANTS:
        return m.try_acquire(t, o, **ACQ_VARIANTS[name])[0] == 'hang'
    if name == 'ctx':
        return m.try_acquire(t, o, True, None)[0] == 'hang'
    if name in ('with', 'with_raise', 'ctx_raise'):
        return m.try_acquire(t, o, True, None)[0] == 'hang'
    return False


def op_allowed(model, t, o, name):
    if name in ('rel', 'rel_force') and model.reentrant and model.holder[o] is not None and model.holder[o] != t:
        return False
    return not op_would_hang(model, t, o, name)


def gen_seq_program(rng, profile, index=None):
    if profile.startswith('enum'):
        # enumL: all sequences of length L over SMALL_ALPHABET x 2 threads (8 symbols), 1 object,
        # reentrant = index parity
        L = int(profile[4:])
        x = index
        x, reentrant = divmod(x, 2)
        ops = []
        model = Model(1, bool(reentrant), -1)
        for _ in range(L):
            x, s = divmod(x, 8)
            t, name = s // 4, SMALL_ALPHABET[s % 4]
            if name in ('rel', 'rel_force') and reentrant and model.holder[0] is not None and model.holder[0] != t:
                continue        # releasing another thread's reentrant lock is outside the contract: symbol dropped
            ops.append([t, 0, name])
            apply_model(model, t, 0, name)
        return {'world': 'fl-seq', 'reentrant': bool(reentrant), 'nobj': 1, 'ctor_timeout': -1, 'ops': ops, 'faults': []}
    reentrant = rng.random() < 0.5
    nobj = rng.choice([1, 2])
    ctor_timeout = _w(rng, [(-1, 6), (SMALL, 3), (0, 1)])
    model = Model(nobj, reentrant, ctor_timeout)
    n = rng.randint(1, 25) if not profile.endswith('-short') else rng.randint(1, 7)
    ops = []
    for _ in range(n):
        for _try in range(8):
            t = rng.randrange(2)
            o = rng.randrange(nobj)
            name = rng.choice(FULL_ALPHABET) if rng.random() < 0.7 else rng.choice(['rel', 'rel_force', 'acq', 'acq_nb'])
            if name in ('rel', 'rel_force') and reentrant and model.holder[o] is not None and model.holder[o] != t:
                continue            # releasing another thread's reentrant lock is outside the contract
            if op_would_hang(model, t, o, name):
                continue
            break
        else:
            continue
        ops.append([t, o, name])
        apply_model(model, t, o, name)
    return {'world': 'fl-seq', 'reentrant': reentrant, 'nobj': nobj, 'ctor_timeout': ctor_timeout, 'ops': ops, 'faults': []}


def apply_model(model, t, o, name):
    """Advance the model; returns the expected observable outcome."""
    if name in ACQ_VARIANTS:
        r, mx, mn = model.try_acquire(t, o, **ACQ_VARIANTS[name])
        return ('ret', r), mx, mn
    if name in ('ctx', 'ctx_nb', 'ctx_ts', 'with', 'with_raise', 'ctx_raise'):
        kw = {'ctx': (True, None), 'ctx_nb': (False, None), 'ctx_ts': (True, SMALL), 'with': (True, None),
              'with_raise': (True, None), 'ctx_raise': (True, None)}[name]
        r, mx, mn = model.try_acquire(t, o, *kw)
        if r is True:
            model.release(t, o)
            if name.endswith('_raise'):
                return ('body-raised', True), mx, mn       # the body's own exception comes out, the lock is released
            return ('ctx', True), mx, mn
        if r == 'hang':
            return ('hang',), None, None
        return ('timeout',), mx, mn
    if name == 'rel':
        model.release(t, o)
        return ('ret', None), 0.0, 0.0
    if name == 'rel_force':
        model.release(t, o, force=True)
        return ('ret', None), 0.0, 0.0
    raise ValueError(name)


# ================================================================== seq world
class SeqWorld:

    def __init__(self, prog, sch, fl, seams, path):
        self.prog = prog
        self.sch = sch
        self.fl = fl
        self.seams = seams
        self.path = path
        self.violations = []
        self.cmd = [None, None]
        self.res = [None, None]
        self.stop = False
        self.locks = []
        self.model = Model(prog['nobj'], prog['reentrant'], prog['ctor_timeout'])
        self.end = None
        self.faulted = False
        self.nops = 0
        self.skipped = 0
        self.trace = []

    def viol(self, oracle, sig, detail, **features):
        features.setdefault('faults', len(self.prog['faults']))
        self.violations.append({'property': 'C12', 'oracle': oracle, 'signature': sig, 'detail': detail,
                                'features': features, 'step': self.sch.step, 't': self.sch.clock})

    # ---------------------------------------------------------------- workers
    def worker(self, t):
        sch = self.sch
        while True:
            sch.block(lambda: self.cmd[t] is not None or self.stop, None, 'await-cmd')
            if self.cmd[t] is None:
                return
            o, name = self.cmd[t]
            try:
                self.res[t] = self.do_op(o, name)
            except S.Abort:
                raise
            except BaseException as e:  # noqa
                self.res[t] = ('exc', type(e).__name__, getattr(e, 'errno', None))
            self.cmd[t] = None

    def do_op(self, o, name):
        lock = self.locks[o]
        if name in ACQ_VARIANTS:
            kw = ACQ_VARIANTS[name]
            return ('ret', lock.acquire(**kw))
        if name in ('ctx', 'ctx_nb', 'ctx_ts'):
            kw = {'ctx': (True, None), 'ctx_nb': (False, None), 'ctx_ts': (True, SMALL)}[name]
            try:
                with lock.acquire_ctx(*kw):
                    inside = lock.is_locked
                return ('ctx', inside)
            except TimeoutError:
                return ('timeout',)
        if name == 'with':
            try:
                with lock:
                    inside = lock.is_locked
                return ('ctx', inside)
            except TimeoutError:
                return ('timeout',)
        if name in ('with_raise', 'ctx_raise'):
            inside = None
            try:
                if name == 'with_raise':
                    with lock:
                        inside = lock.is_locked
                        raise _BodyError()
                else:
                    with lock.acquire_ctx():
                        inside = lock.is_locked
                        raise _BodyError()
            except _BodyError:
                return ('body-raised', inside)
            except TimeoutError:
                return ('timeout',)
        if name == 'rel':
            lock.release()
            return ('ret', None)
        if name == 'rel_force':
            lock.release(force=True)
            return ('ret', None)
        raise ValueError(name)

    def run_op(self, t, o, name):
        sch = self.sch
        self.res[t] = None
        self.cmd[t] = (o, name)
        t0 = sch.clock
        sch.block(lambda: self.cmd[t] is None, None, 'await-op')
        return self.res[t], sch.clock - t0

    # ------------------------------------------------------------------- main
    def main(self):
        sch = self.sch
        p = self.prog
        FL = self.fl.FileLock
        self.locks = [FL(self.path, timeout=p['ctor_timeout'], reentrant=p['reentrant']) for _ in range(p['nobj'])]
        base_fds = nfds()
        ths = [sch.spawn(partial(self.worker, t), f'w{t}') for t in range(2)]
        plan = self.seams.plan
        try:
            for k, (t, o, name) in enumerate(p['ops']):
                if self.faulted and not op_allowed(self.model, t, o, name):
                    # an injected fault changed who holds what: this operation would now be outside the
                    # contract (foreign release of a reentrant lock) or block forever; skip it
                    self.skipped += 1
                    continue
                before = self.model.copy()
                fired_before = len(plan.fired)
                got, elapsed = self.run_op(t, o, name)
                self.nops += 1
                exp, mx, mn = apply_model(self.model, t, o, name)
                faulted_now = len(plan.fired) > fired_before
                self.trace.append([t, o, name, list(got) if got else None, elapsed])
                sch.log('op', k, t, o, name, repr(got), elapsed)
                ctx = f'op {k} thread {t} obj {o} {name} (reentrant={p["reentrant"]}, ctor_timeout={p["ctor_timeout"]}); history {p["ops"][:k + 1]}'
                if faulted_now:
                    self.faulted = True
                    if not self.check_faulted(got, exp, before, t, o, name, ctx, plan.fired[fired_before:]):
                        return
                else:
                    if got != exp:
                        self.viol('filelock.wrong_result', 'operation result differs from the reference model',
                                  f'{ctx}: expected {exp}, got {got}', op=name, reentrant=p['reentrant'])
                        return
                    if mx is not None and (elapsed > mx + 1e-9 or elapsed < mn - 1e-9):
                        self.viol('filelock.timing', 'acquire took longer (or shorter) than its time-outs allow',
                                  f'{ctx}: elapsed {elapsed} virtual s, allowed [{mn}, {mx}]', op=name)
                        return
                if not self.check_state(ctx, base_fds):
                    return
            # faults are placed inside the history only; the closing probes run fault-free
            self.calls_history = dict(plan.count)
            plan.faults = {}
            self.drain(base_fds)
        finally:
            self.stop = True
            sch.join(ths)

    def check_faulted(self, got, exp, before, t, o, name, ctx, fired):
        """Narrow relaxation: the faulted operation may fail or raise; state must stay truthful."""
        ok_kinds = {exp}
        if name in ACQ_VARIANTS or name in ('ctx', 'ctx_nb', 'ctx_ts', 'with', 'with_raise', 'ctx_raise'):
            ok_kinds |= {('ret', False), ('timeout',), ('ret', True), ('ctx', True), ('body-raised', True)}
        acceptable = got in ok_kinds or (got and got[0] == 'exc' and got[1] in ('OSError', 'BlockingIOError', 'InterruptedError', 'PermissionError'))
        if not acceptable:
            self.viol('filelock.fault_wrong_result', 'under an injected OS error the operation returned something impossible',
                      f'{ctx}: fault {fired}: expected one of {sorted(map(str, ok_kinds))} or OSError, got {got}', op=name)
            return False
        # re-synchronise the model from what the object says; truthfulness is verified against the kernel below
        m = self.model
        for oo in range(m.nobj):
            locked = self.locks[oo].is_locked
            if locked and m.holder[oo] is None:
                m.holder[oo] = t
                m.depth[oo] = 1
                m.path_holder = oo
            elif not locked and m.holder[oo] is not None:
                m.holder[oo] = None
                m.depth[oo] = 0
                if m.path_holder == oo:
                    m.path_holder = None
        if name in ACQ_VARIANTS and got == ('ret', False) and before.holder[o] == t and before.reentrant:
            m.depth[o] = before.depth[o]
        return True

    def check_state(self, ctx, base_fds):
        m = self.model
        plan = self.seams.plan
        for oo in range(m.nobj):
            if self.locks[oo].is_locked != m.is_locked(oo):
                self.viol('filelock.is_locked_lies', 'is_locked differs from the reference model',
                          f'{ctx}: object {oo} is_locked={self.locks[oo].is_locked}, model says {m.is_locked(oo)}')
                return False
        held = sum(1 for oo in range(m.nobj) if m.is_locked(oo))
        if len(plan.open_fds) != held:
            self.viol('filelock.fd_leak', 'descriptor ledger differs from the number of held locks',
                      f'{ctx}: {len(plan.open_fds)} descriptor(s) open through the os seam, {held} lock(s) held', faulted=self.faulted)
            return False
        n = nfds()
        if n != base_fds + held:
            self.viol('filelock.fd_leak', '/proc/self/fd count differs from the number of held locks',
                      f'{ctx}: {n - base_fds} extra descriptor(s) in /proc/self/fd, {held} lock(s) held', faulted=self.faulted)
            return False
        kl = kernel_locked(self.path)
        if kl != (held > 0):
            self.viol('filelock.kernel_state', 'kernel lock state differs from what the objects report',
                      f'{ctx}: kernel says locked={kl}, objects report {held} holder(s)', faulted=self.faulted)
            return False
        return True

    def drain(self, base_fds):
        """Release everything as the model says it is held; afterwards every thread x object must acquire."""
        m = self.model
        p = self.prog
        for oo in range(m.nobj):
            guard = 0
            while m.holder[oo] is not None and guard < 40:
                t = m.holder[oo]
                self.run_op(t, oo, 'rel')
                m.release(t, oo)
                guard += 1
        ctx = f'drain after history {p["ops"]} (reentrant={p["reentrant"]}, faults={p["faults"]})'
        if not self.check_state(ctx, base_fds):
            return
        for t in range(2):
            for oo in range(m.nobj):
                got, el = self.run_op(t, oo, 'acq_nb')
                if got != ('ret', True):
                    self.viol('filelock.residue', 'after everything was released a thread/object cannot acquire the lock',
                              f'{ctx}: thread {t} object {oo} acquire(blocking=False) -> {got}',
                              reentrant=p['reentrant'], forced=any(x[2] == 'rel_force' for x in p['ops']))
                    return
                self.run_op(t, oo, 'rel')
                if not self.check_state(ctx + f' / probe t{t} o{oo}', base_fds):
                    return


def execute_seq(prog, keep_log=False):
    _, fl = env.aiuti()
    sch = S.Sched(seed=0, strategy=('sticky', 0.0), step_cap=50_000, keep_log=keep_log)
    sch.log('prog', json.dumps(prog, sort_keys=True))
    path = fresh_path()
    seams = FilelockSeams(fl).install([tuple(f) for f in prog['faults']])
    w = SeqWorld(prog, sch, fl, seams, path)
    try:
        try:
            sch.run(w.main)
            w.end = 'normal'
        except S.Quiescent:
            w.end = 'quiescent'
            k = w.nops
            op = prog['ops'][k] if k < len(prog['ops']) else None
            w.viol('filelock.hang', 'an operation the reference model lets through never returns',
                   f'op {k} {op} hangs; history {prog["ops"][:k + 1]} (reentrant={prog["reentrant"]}, faults={prog["faults"]})')
        except S.StepCap:
            w.end = 'stepcap'
            w.viol('filelock.hang', 'an operation spins', f'history {prog["ops"]}')
    finally:
        plan = seams.plan
        plan.faults = {}
        for lk in w.locks:
            try:
                lk.release(force=True)      # through the seams (ledger stays exact); never blocks outside a run
            except BaseException:  # noqa
                pass
        seams.restore()
        for fd in list(plan.open_fds):
            try:
                os.close(fd)
            except OSError:
                pass
        try:
            os.unlink(path)
        except OSError:
            pass
    return {'end': w.end, 'violations': w.violations, 'digest': sch.digest(), 'steps': sch.step, 'vtime': sch.clock,
            'switches': [], 'nswitch': sch.nswitch, 'edges': set(),
            'faults': {f'oserror.{k}': 1 for k, i, e in plan.fired},
            'calls': getattr(w, 'calls_history', dict(plan.count)),
            'probes': {'filelock.timed_out_acquire': sum(1 for x in w.trace if x[3] in (['ret', False], ['timeout']) and x[4] > 0),
                       'filelock.forced_release': sum(1 for x in w.trace if x[2] == 'rel_force')},
            'leaked': sch.leaked, 'nontrivial': len(prog['ops']) >= 2, 'log': sch.log_list if keep_log else None,
            'outcomes': w.trace[:12]}


# ================================================================= conc world
def gen_conc_program(rng, profile):
    nthreads = _w(rng, [(2, 5), (3, 3), (4, 2)])
    nobj = rng.choice([1, 2])
    reentrant = rng.random() < 0.4
    ctor_timeout = _w(rng, [(-1, 5), (SMALL, 4), (0, 1)])
    threads = []
    for t in range(nthreads):
        rounds = []
        for _ in range(rng.randint(1, 3)):
            how = _w(rng, [('acquire', 4), ('ctx', 3), ('with', 4)])
            mode = _w(rng, [('default', 5), ('nb', 2), ('timed', 3)]) if how != 'with' else 'default'
            rounds.append({'obj': rng.randrange(nobj), 'how': how, 'mode': mode,
                           # an inner nesting level whose body raises; the exception is handled inside the outer section
                           'inner_raise': reentrant and rng.random() < 0.3,
                           'nest': rng.randint(1, 3) if reentrant else 1,
                           'hold': _w(rng, [(0.0, 5), (POLL / 2, 2), (SMALL, 2), (SMALL + POLL, 2), (1.0, 1)]),
                           'yields': rng.randint(1, 4)})
        threads.append({'start': _w(rng, [(0.0, 7), (POLL / 2, 2), (SMALL, 1)]), 'rounds': rounds})
    if rng.random() < 0.15:
        # exact tie: a holder releases at the very instant a waiter's deadline expires (both then runnable, any line order)
        nobj = 1
        for t, th in enumerate(threads):
            th['start'] = 0.0
            r = th['rounds'][0]
            r['obj'] = 0
            r['hold'] = SMALL
            if t and r['how'] != 'with':
                r['mode'] = 'timed'
        if rng.random() < 0.5:
            ctor_timeout = SMALL
        for th in threads:
            for r in th['rounds']:
                r['obj'] = 0
    return {'world': 'fl-conc', 'nobj': nobj, 'reentrant': reentrant, 'ctor_timeout': ctor_timeout, 'threads': threads}


class ConcWorld:
    def __init__(self, prog, sch, fl, path):
        self.prog = prog
        self.sch = sch
        self.fl = fl
        self.path = path
        self.violations = []
        self.inside = {}            # thread -> nesting count inside the critical section
        self.max_occ = 0
        self.entries = 0
        self.failed = 0
        self.harness_errors = []
        self.locks = []
        self.end = None

    def viol(self, oracle, sig, detail, **features):
        self.violations.append({'property': 'C02', 'oracle': oracle, 'signature': sig, 'detail': detail,
                                'features': features, 'step': self.sch.step, 't': self.sch.clock})
        self.sch.log('VIOL', oracle)

    def critical(self, t, lock, rnd, how):
        sch = self.sch
        first = t not in self.inside
        self.inside[t] = self.inside.get(t, 0) + 1
        if first:
            self.entries += 1
            occ = len(self.inside)
            self.max_occ = max(self.max_occ, occ)
            sch.log('enter', t)
            if occ > 1:
                p = self.prog
                self.viol('filelock.overlap', 'two holders inside the protected section at once',
                          f'thread {t} entered via {how} (mode {rnd["mode"]}, obj {rnd["obj"]}) while thread(s) '
                          f'{[x for x in self.inside if x != t]} are inside; ctor_timeout={p["ctor_timeout"]} reentrant={p["reentrant"]}',
                          how=how, mode=rnd['mode'], ctor_timeout_finite=p['ctor_timeout'] >= 0)
        if not lock.is_locked:
            self.viol('filelock.not_locked_inside', 'is_locked is false inside the protected section',
                      f'thread {t} via {how} (mode {rnd["mode"]})', how=how, ctor_timeout_finite=self.prog['ctor_timeout'] >= 0)
        for _ in range(rnd['yields']):
            sch.yield_point()
        if rnd['hold'] and first:
            sch.sleep(rnd['hold'])
        self.inside[t] -= 1
        if self.inside[t] == 0:
            del self.inside[t]
            sch.log('leave', t)

    def check_elapsed(self, t, rnd, how, t0, ok):
        """C12's timing clause under real contention: a non-blocking attempt returns at once, a timed one within its timeout
        for each of the two waiting stages plus one poll interval (virtual time, so the bound is exact)."""
        mode = rnd['mode']
        to = {'nb': None, 'timed': SMALL}.get(mode, self.prog['ctor_timeout'])
        if mode == 'nb':
            bound = 0.0
        elif to is not None and to >= 0:
            bound = 2 * to + POLL
        else:
            return
        el = self.sch.clock - t0
        if el > bound + 1e-9:
            self.violations.append({'property': 'C12', 'oracle': 'filelock.conc_timing',
                                    'signature': 'an attempt with a deadline outlasted it under contention',
                                    'detail': f'thread {t} {how} (mode {mode}, obj {rnd["obj"]}, timeout {to}) returned '
                                              f'{"success" if ok else "failure"} after {el} s, bound {bound} s; '
                                              f'reentrant={self.prog["reentrant"]} nobj={self.prog["nobj"]}',
                                    'features': {'mode': mode, 'ok': ok}, 'step': self.sch.step, 't': self.sch.clock})
            self.sch.log('VIOL', 'filelock.conc_timing')

    def acq_kwargs(self, rnd):
        if rnd['mode'] == 'nb':
            return {'blocking': False}
        if rnd['mode'] == 'timed':
            return {'timeout': SMALL}
        return {}

    def inner(self, t, rnd, depth):
        """Nested level(s) inside a held section.  With inner_raise the innermost body raises and the holder, still inside its
        outer section, handles it and carries on working under the lock."""
        if rnd.get('inner_raise') and depth == 1:
            self.critical(t, self.locks[rnd['obj']], rnd, rnd['how'])
            raise _BodyError()
        try:
            self.do_round(t, rnd, depth, top=False)
        except _BodyError:
            self.critical(t, self.locks[rnd['obj']], rnd, rnd['how'] + '+after-inner-exception')

    def do_round(self, t, rnd, depth, top=True):
        lock = self.locks[rnd['obj']]
        how = rnd['how']
        kw = self.acq_kwargs(rnd)
        if rnd.get('inner_raise') and rnd['nest'] > 1:
            return self.do_round_raising(t, rnd, depth, top)
        t0 = self.sch.clock
        if how == 'acquire':
            ok = lock.acquire(**kw)
            self.check_elapsed(t, rnd, how, t0, ok)
            if ok:
                try:
                    self.critical(t, lock, rnd, how)
                    if depth > 1:
                        self.do_round(t, rnd, depth - 1)
                finally:
                    lock.release()
            else:
                self.failed += 1
        elif how == 'ctx':
            entered = False
            try:
                with lock.acquire_ctx(**kw):
                    entered = True
                    self.check_elapsed(t, rnd, how, t0, True)
                    self.critical(t, lock, rnd, how)
                    if depth > 1:
                        self.do_round(t, rnd, depth - 1)
            except TimeoutError:
                if not entered:
                    self.check_elapsed(t, rnd, how, t0, False)
                self.failed += 1
        else:
            entered = False
            try:
                with lock:
                    entered = True
                    self.check_elapsed(t, rnd, how, t0, True)
                    self.critical(t, lock, rnd, how)
                    if depth > 1:
                        self.do_round(t, rnd, depth - 1)
            except TimeoutError:
                if not entered:
                    self.check_elapsed(t, rnd, how, t0, False)
                self.failed += 1

    def do_round_raising(self, t, rnd, depth, top):
        """depth levels of nesting; the innermost body raises, the level above it catches inside its own section."""
        lock = self.locks[rnd['obj']]
        how = rnd['how']
        kw = self.acq_kwargs(rnd)

        def body():
            self.critical(t, lock, rnd, how)
            if depth > 1:
                try:
                    self.do_round_raising(t, rnd, depth - 1, False)
                except _BodyError:
                    if depth == 2:
                        # handled here, inside this level's section: the lock must still be ours
                        self.critical(t, lock, rnd, how + '+after-inner-exception')
                    else:
                        raise
            else:
                raise _BodyError()
        try:
            if how == 'acquire':
                if lock.acquire(**kw):
                    try:
                        body()
                    finally:
                        lock.release()
                else:
                    self.failed += 1
            elif how == 'ctx':
                with lock.acquire_ctx(**kw):
                    body()
            else:
                with lock:
                    body()
        except TimeoutError:
            self.failed += 1
        except _BodyError:
            if not top:
                raise

    def worker(self, t):
        spec = self.prog['threads'][t]
        try:
            if spec['start']:
                self.sch.sleep(spec['start'])
            for rnd in spec['rounds']:
                self.do_round(t, rnd, rnd['nest'])
        except S.Abort:
            raise
        except BaseException as e:  # noqa
            self.harness_errors.append(f'thread {t}: {type(e).__name__}: {e}')

    def main(self):
        p = self.prog
        FL = self.fl.FileLock
        self.locks = [FL(self.path, timeout=p['ctor_timeout'], reentrant=p['reentrant']) for _ in range(p['nobj'])]
        ths = [self.sch.spawn(partial(self.worker, t), f't{t}') for t in range(len(p['threads']))]
        self.sch.join(ths)
        for oo, lk in enumerate(self.locks):
            if lk.is_locked:
                self.viol('filelock.left_locked', 'an object still reports the lock held after every thread released',
                          f'object {oo}')


def execute_conc(prog, sspec, keep_log=False):
    _, fl = env.aiuti()
    sch = S.Sched(seed=sspec.get('seed', 0), strategy=sspec.get('strategy', ('sticky', 0.1)),
                  switches=sspec.get('switches'), strict=sspec.get('strict', True),
                  step_cap=60_000, trace_files=(fl.__file__,), keep_log=keep_log)
    sch.log('prog', json.dumps(prog, sort_keys=True))
    path = fresh_path()
    seams = FilelockSeams(fl).install(())
    w = ConcWorld(prog, sch, fl, path)
    try:
        try:
            sch.run(w.main)
            w.end = 'normal'
        except S.Quiescent:
            w.end = 'quiescent'
        except S.StepCap as e:
            w.end = 'livelock' if e.clock_stuck else 'stepcap'
        except S.ReplayDiverged as e:
            w.end = 'diverged'
            w.harness_errors.append(f'REPLAY-DIVERGED {e}')
    finally:
        plan = seams.plan
        for lk in w.locks:
            try:
                lk.release(force=True)
            except BaseException:  # noqa
                pass
        seams.restore()
        for fd in list(plan.open_fds):
            try:
                os.close(fd)
            except OSError:
                pass
        try:
            os.unlink(path)
        except OSError:
            pass
    for e in w.harness_errors:
        w.violations.append({'property': 'HARNESS', 'oracle': 'harness.error', 'signature': 'harness error', 'detail': e, 'features': {}})
    if w.end in ('quiescent', 'livelock'):
        w.viol('filelock.deadlock', 'contending threads never all finish',
               f'run ended {w.end} at t={sch.clock}: {[repr(t) for t in sch.threads]}')
    elif w.end == 'stepcap':
        w.violations.append({'property': 'HARNESS', 'oracle': 'harness.stepcap', 'signature': 'step cap', 'detail': '', 'features': {}})
    return {'end': w.end, 'violations': w.violations, 'digest': sch.digest(), 'steps': sch.step, 'vtime': sch.clock,
            'switches': [list(x) for x in sch.switch_log], 'nswitch': sch.nswitch, 'nswitch_traced': sch.nswitch_traced,
            'edges': sch.edges, 'faults': {},
            'probes': {'filelock.section_entries': w.entries, 'filelock.failed_acquires': w.failed,
                       'filelock.flock_calls': plan.count['flock']},
            'leaked': sch.leaked, 'nontrivial': sch.nswitch_traced > 0, 'log': sch.log_list if keep_log else None,
            'outcomes': [w.entries, w.failed, w.max_occ]}
