"""
Caller-supplied cache mappings for threadsafe_async_cache.  This file is in the
scheduler's traced set, so a thread can be pre-empted between any two lines of these
methods, exactly as with a user's pure-Python MutableMapping.
"""

from collections.abc import MutableMapping


class RetainingMap(MutableMapping):
    """Keeps everything it is given (thin wrapper over a dict)."""

    def __init__(self):
        self.d = {}
        self.sets = 0

    def __getitem__(self, k):
        d = self.d
        return d[k]

    def __setitem__(self, k, v):
        self.sets += 1
        d = self.d
        d[k] = v

    def __delitem__(self, k):
        del self.d[k]

    def __iter__(self):
        return iter(self.d)

    def __len__(self):
        return len(self.d)


class EvictingMap(RetainingMap):
    """A mapping that loses entries when the fault plan says so (``evict``)."""

    def __init__(self):
        super().__init__()
        self.evicted = []

    def evict(self, k):
        if k in self.d:
            del self.d[k]
            self.evicted.append(k)
            return True
        return False


class MappingRefusal(TypeError):
    """Raised by PickyMap.__setitem__: the caller-supplied mapping refuses a value."""


class PickyMap(EvictingMap):
    """A caller-supplied mapping that refuses to store some values (as a WeakValueDictionary refuses None / ints, or a
    validating / bounded mapping would)."""

    def __init__(self, refuse_every=2):
        super().__init__()
        self.refuse_every = refuse_every
        self.refused = 0

    def __setitem__(self, k, v):
        self.sets += 1
        if v is None or self.sets % self.refuse_every == 0:
            self.refused += 1
            raise MappingRefusal(f'value {v!r} refused')
        d = self.d
        d[k] = v
