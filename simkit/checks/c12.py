"""C12 — FileLock obeys the Lock/RLock contract, no residue (see DESIGN.md 3.12)."""
import json
import random

from ..worlds import flworld as fw

PROPERTY = 'C12'
LEVEL = 'fault_enumeration'
DESIGN_REF = '3.12'
CHUNK = 400
RULE = ('sequential histories (each operation runs to completion or to its virtual time-out before the next starts) over 2 sim threads '
        'x <=2 FileLock objects on one path, reentrant and not, constructor time-out in {-1, 0, 0.25}: (a) bounded-exhaustive: every '
        'sequence of length 1..5 (quick) / 1..7 (thorough) over the smallest alphabet {acquire(blocking=False), acquire(timeout=0.25), '
        'release(), release(force=True)} x 2 threads on one object, reentrant and not; (b) random histories of length <=25 over the full '
        'alphabet (7 acquire argument forms, acquire_ctx x3, with, release, forced release) generated along the reference model so that '
        'no generated operation blocks forever; (c) fault enumeration: for sampled histories, one run per single OSError injected at every '
        'call index of os.open / flock / unlock / os.close, and per sampled pair. Oracle after every operation: result and elapsed virtual '
        'time vs. an executable reference model; is_locked of every object; descriptors open through the os seam == /proc/self/fd delta == '
        'number of held locks; kernel flock state probed from a fresh descriptor; at the end everything is released per model and every '
        'thread x object must acquire. Under an injected fault the faulted operation may fail or raise, all state checks stay on. '
        '(d) contended: the thread world of C02 (2-4 threads, 1-2 objects, seeded line-level pre-emption, holders releasing exactly at a '
        'waiter\'s deadline) judged with C12\'s clauses that only show under overlap: a non-blocking attempt returns at once and a timed one '
        'within 2 x timeout + one poll interval (exact in virtual time), nothing is left locked after every thread released, nobody is '
        'left waiting for a lock nobody holds. non-trivial = >=2 operations; distinct by run digest.')
LEVEL_TEXT = ('Bounded-exhaustive enumeration of short histories plus seeded random long ones against an executable reference model, and '
              'exhaustive single-fault (sampled double-fault) injection into every OS call of sampled histories; the kernel lock and the '
              'descriptors are real, time is virtual, so time-out bounds are exact.')
LEVEL_NOTE = ('Trusted: the reference model (flworld.Model) as the reading of the statement; Linux flock/close semantics (close always '
              'releases the descriptor); real threading.Lock/RLock objects inside the shims. exhaustive=true is claimed only for the '
              'enumerated batches and for the single-fault dimension of each sampled history.')
TECHNIQUE = 'deterministic simulation with fault injection: reference-model conformance over enumerated and random histories, OSError injection at every syscall index, fd ledger'
REAL = ['aiuti.filelock (unmodified source)', 'kernel flock / open / close on tmpfs', 'threading.Lock / RLock objects (inside SimLock/SimRLock)',
        'real OS threads (two workers, one runs at a time)']
STUB = ['time.time / time.sleep (virtual clock)', 'blocking part of Lock.acquire / flock (try, else park)', 'os / fcntl pass-through shims with a fault switch']
ASSUMPTIONS = ['Linux; CPython 3.12.1', 'release is called by the acquiring thread (the statement excludes anything else)',
               'batches (a)-(c) use sequential histories; overlapping operations are batch (d) and C02']


def batches(tier):
    b = []
    for L in range(1, 6 if tier == 'quick' else 8):
        b.append({'name': f'enum{L}', 'n': 2 * 8 ** L, 'profile': f'enum{L}'})
    k = 1 if tier == 'quick' else 40
    b.append({'name': 'random', 'n': 20000 * k, 'profile': 'random'})
    b.append({'name': 'fault-sweep', 'n': 400 * k, 'profile': 'sweep', 'chunk': 8})
    # the timing, is_locked and re-acquirability clauses under real contention (C02's thread world, C12's oracles)
    b.append({'name': 'contended', 'n': 16000 * k, 'profile': 'conc'})
    return b


CONC_AS_C12 = ('filelock.left_locked', 'filelock.not_locked_inside', 'filelock.deadlock')


def make_case(batch, seed):
    rng = random.Random(seed)
    if batch['profile'] == 'conc':
        from .. import sched as S
        return {'prog': fw.gen_conc_program(rng, 'conc'), 'sched': {'seed': seed, 'strategy': list(S.pick_strategy(rng))}}
    if batch['profile'] == 'sweep':
        prog = fw.gen_seq_program(rng, 'random-short')
        return {'prog': prog, 'sweep': True, 'pair_seed': seed, 'sched': {}}
    return {'prog': fw.gen_seq_program(rng, batch['profile'], batch.get('index')), 'sched': {}}


ERRNOS = {'open': ['EMFILE', 'EINTR'], 'flock': ['EINTR', 'ENOLCK'], 'unlock': ['EIO', 'EINTR'], 'close': ['EIO', 'EINTR']}


def run_case(case):
    if case['prog'].get('world') == 'fl-conc':
        r = fw.execute_conc(case['prog'], case.get('sched') or {})
        for v in r['violations']:
            if v['property'] == 'C02' and v['oracle'] in CONC_AS_C12:
                v['property'] = 'C12'
                v['oracle'] = v['oracle'].replace('filelock.', 'filelock.conc_')
        return r
    if not case.get('sweep'):
        return fw.execute_seq(case['prog'])
    # fault-free run to learn the call counts, then every single fault, then sampled pairs
    base = fw.execute_seq(case['prog'])
    if base['violations']:
        return base
    calls = base['calls']
    singles = [(k, i, ERRNOS[k][i % 2]) for k in ('open', 'flock', 'unlock', 'close') for i in range(calls.get(k, 0))]
    rng = random.Random(case['pair_seed'])
    pairs = []
    if len(singles) >= 2:
        allp = [(a, b) for x, a in enumerate(singles) for b in singles[x + 1:]]
        rng.shuffle(allp)
        pairs = allp[:40]
    agg = dict(base)
    agg['faults'] = {}
    agg['sweep_runs'] = 1
    digest = [base['digest']]
    for fs in [[s] for s in singles] + [list(p) for p in pairs]:
        prog = json.loads(json.dumps(case['prog']))
        prog['faults'] = [list(f) for f in fs]
        r = fw.execute_seq(prog)
        agg['sweep_runs'] += 1
        agg['steps'] += r['steps']
        agg['vtime'] += r['vtime']
        for k, n in r['faults'].items():
            agg['faults'][k] = agg['faults'].get(k, 0) + n
        digest.append(r['digest'])
        if r['violations']:
            for v in r['violations']:
                v['features'] = dict(v.get('features') or {}, fault=[list(f) for f in fs])
                v['detail'] += f' [injected {fs}]'
            agg['violations'] = r['violations']
            agg['failing_faults'] = [list(f) for f in fs]
            break
    agg['faults']['sweep.single_fault_runs'] = len(singles)
    agg['faults']['sweep.double_fault_runs'] = len(pairs)
    import hashlib
    agg['digest'] = hashlib.blake2b(''.join(digest).encode(), digest_size=16).hexdigest()
    return agg


def shrink(case):
    prog = case['prog']
    if prog.get('world') == 'fl-conc':
        from . import c02
        yield from c02.shrink(case)
        return
    if case.get('sweep'):
        # reduce a sweep to the single failing fault set
        r = run_case(case)
        if r.get('failing_faults'):
            c = json.loads(json.dumps(case))
            c.pop('sweep')
            c.pop('pair_seed', None)
            c['prog']['faults'] = r['failing_faults']
            yield c
        return
    for i in range(len(prog['ops'])):
        c = json.loads(json.dumps(case))
        del c['prog']['ops'][i]
        if _valid(c['prog']):
            yield c
    for i in range(len(prog['faults'])):
        c = json.loads(json.dumps(case))
        del c['prog']['faults'][i]
        yield c
    if prog['nobj'] == 2 and all(o[1] == 0 for o in prog['ops']):
        c = json.loads(json.dumps(case))
        c['prog']['nobj'] = 1
        yield c


def _valid(prog):
    """A shrunk history must still respect the generation rules (no forever-blocking op, releases by the holder)."""
    m = fw.Model(prog['nobj'], prog['reentrant'], prog['ctor_timeout'])
    for t, o, name in prog['ops']:
        if name in ('rel', 'rel_force') and prog['reentrant'] and m.holder[o] is not None and m.holder[o] != t:
            return False
        if fw.op_would_hang(m, t, o, name):
            return False
        fw.apply_model(m, t, o, name)
    return True


def extra_evidence(agg):
    return {'exhaustive_sub_batches': 'enumL batches enumerate all 2*8^L histories of length L over the small alphabet; '
                                      'fault-sweep enumerates every single-fault index of each sampled history'}
