"""C05 — cached calls always terminate, promptly (see DESIGN.md 3.5)."""
from . import _cache
from ._cache import REAL, STUB, ASSUMPTIONS, shrink, run_case  # noqa

PROPERTY = 'C05'
LEVEL = 'exploration'
LEVEL_TEXT = "Seeded search over the same cache world with failing/cancelled computations, caller time-outs and loops stopped inside a computation; termination is decided by the scheduler's quiescence/step-cap detectors and promptness by an invariant evaluated at every jump of the virtual clock, so '60 s' and 'as soon as the computation ends' are exact."
LEVEL_NOTE = 'Trusted: as C01; liveness is claimed for fair schedules only (all strategies are fair w.p. 1) and within the step cap.'
TECHNIQUE = 'deterministic simulation: virtual clock idle-wait invariant, deadlock/livelock detection, loop-stop fault injection'
DESIGN_REF = '3.5'
CHUNK = 250
RULE = ('cache world with invocations that succeed / raise / are cancelled, caller time-outs and cancellations, loops '
        'stopped by faults at scheduler steps inside a computation or at grid instants. Oracles: (termination) no run ends '
        'quiescent or step-capped with a caller pending on a running loop; (idle-wait) whenever the virtual clock is about '
        'to jump, every caller pending on a running loop is excused by a live invocation of its key or by a computing loop '
        'that stopped no more than 60 s ago while the caller was already waiting. distinct_nontrivial = distinct run digests '
        'among runs with >=1 cross-thread switch in traced code or >=1 fired fault.')
PROBES_EXPECTED = ('cache.safety_timeout_60', 'cache.cross_loop_wait', 'cache.takeover_dead_loop',
                   'cache.run_coro_ts_closed')


def batches(tier):
    k = 1 if tier == 'quick' else 12
    return [{'name': 'nofault', 'n': 4000 * k, 'profile': 'c05-nofault'},
            {'name': 'faults', 'n': 20000 * k, 'profile': 'c05'}]


def make_case(batch, seed):
    return _cache.make_case(batch['profile'], seed)
