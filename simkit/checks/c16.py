"""C16 — sync/async iterator bridges (see DESIGN.md 3.16)."""
import json
import random

from .. import sched as S
from ..worlds import iterworld as iw

PROPERTY = 'C16'
LEVEL = 'exploration'
DESIGN_REF = '3.16'
CHUNK = 250
RULE = ('each run = one source of length 0..6 (list, range, generator, one-shot iterator, hand-written iterator class; async generator '
        'for to_sync_iter) with elements from {None, 0, "", 1, 1, False, "x", 2} (duplicates and falsy values), a failure at a '
        'random position or none, per-step virtual delays from a grid, consumer faster or slower than the producer; on a caller-supplied loop the first to_sync_iter iteration may be abandoned (break + close) after k elements and is followed by a complete second iteration on the same loop; one seeded '
        'schedule with pre-emption at every line of aiuti/asyncio.py between the consuming loop/thread and the producer thread. '
        'Oracles: consumed sequence == source prefix (types and values); terminal exception is the source\'s own object; a further '
        'pull says Stop(Async)Iteration; for iterators under to_async_iter a ticker task on the same loop never sees a gap larger '
        'than its period and the source is never stepped by the loop thread; afterwards no pool worker is alive; quiescence with '
        'the consumer pending = hang (missing sentinel). non-trivial = >=1 cross-thread switch in traced code or >=2 elements; '
        'distinct by run digest.')
LEVEL_TEXT = ('Seeded search over sources, failure positions, virtual producer delays and line-level interleavings of the producer '
              'thread with the consumer, against the real bridges; responsiveness of the loop is measured by a ticker in virtual time, '
              'helper-thread leaks by the simulated pool\'s registry.')
LEVEL_NOTE = ('Trusted: CPython 3.12.1 asyncio; SimPool stands in for ThreadPoolExecutor (workers persist until shutdown like the real '
              'one); the queue.Queue shim wraps the real queue.')
TECHNIQUE = 'deterministic simulation: seeded thread scheduler + virtual-time loops, producer failure/delay injection, sequence and liveness oracles'
REAL = ['aiuti.asyncio.to_async_iter / to_sync_iter (unmodified source, line-traced)',
        'asyncio loop core, Queue, run_in_executor, call_soon_threadsafe (CPython 3.12.1)', 'queue.Queue (inside shim)',
        'concurrent.futures.Future (inside SimFuture)']
STUB = ['ThreadPoolExecutor (SimPool)', 'selector / clock', 'blocking part of queue.get / Future.result', 'thread scheduling']
ASSUMPTIONS = ['CPython 3.12.1 only', 'the consumer iterates to the end (abandoning an iterator half-way is outside the statement)',
               'sampling, not enumeration']
PROBES_EXPECTED = ('iter.producer_thread_used', 'iter.inline_path', 'iter.to_async', 'iter.to_sync')


def batches(tier):
    k = 1 if tier == 'quick' else 40
    return [{'name': 'to_async', 'n': 10000 * k, 'profile': 'c16-async'},
            {'name': 'to_sync', 'n': 8000 * k, 'profile': 'c16-sync'}]


def make_case(batch, seed):
    rng = random.Random(seed)
    prog = iw.gen_program(rng, batch['profile'])
    return {'prog': prog, 'sched': {'seed': seed, 'strategy': list(S.pick_strategy(rng))}}


def run_case(case):
    return iw.execute(case['prog'], case.get('sched') or {})


def shrink(case):
    p = case['prog']
    n = len(p['elems'])
    for i in range(n):
        c = json.loads(json.dumps(case))
        del c['prog']['elems'][i]
        del c['prog']['delays'][i]
        fa = c['prog']['fail_at']
        if fa is not None and fa > i:
            c['prog']['fail_at'] = fa - 1
        yield c
    if any(p['delays']):
        c = json.loads(json.dumps(case))
        c['prog']['delays'] = [0.0] * len(p['delays'])
        yield c
    if p['consumer_delay']:
        c = json.loads(json.dumps(case))
        c['prog']['consumer_delay'] = 0.0
        yield c
    if p['fail_at'] is not None:
        c = json.loads(json.dumps(case))
        c['prog']['fail_at'] = None
        yield c
