"""C14 — cache keys and caller-supplied store (see DESIGN.md 3.14)."""
import random

from . import _cache
from ._cache import REAL, STUB  # noqa
from .. import sched as S
from ..worlds import cacheworld as cw
from ..worlds import keyworld as kw

PROPERTY = 'C14'
LEVEL = 'exploration'
DESIGN_REF = '3.14'
CHUNK = 400
RULE = ('two parts, reported separately in `batches`. (1) key equality, sequential on one loop: every ordered pair of call signatures '
        'from a small domain (positional tuples of length 0..2 over {1, 1.0, True, "a", (1,), (), (1, "a")} x keyword dicts of 0..2 names in every '
        'insertion order over values {1, "a"}; thorough adds sampled length-3 / 3-name / 3-value signatures), realised as '
        'equal-but-distinct objects, called sig1, sig2, sig1: invocation count and result tags must follow the statement\'s equality '
        '(positional equal in order, keywords equal as a set of pairs). This part has no schedule in it; it is enumerated, not '
        'simulated, and is included because the statement\'s other half needs the same key model. (2) concurrency and the '
        'caller-supplied store: cache world (2-4 threads x own loop, line-level pre-emption) with 2-3 model keys, each called through '
        'several equal-but-distinct signature variants (keyword order, 1 / 1.0 / True), store = evicting mapping driven by the fault '
        'plan, lru.LRU(2), plain mapping: no two live invocations per model key; every caller gets a value tagged with its own model '
        'key; invocations(key) <= 1 + evictions(key); no caller that starts after an eviction returns a value computed before it. '
        'distinct_nontrivial counts part (2) runs with >=1 cross-thread switch in traced code or >=1 fired eviction plus part (1) '
        'pairs, by distinct run digest.')
LEVEL_TEXT = ('The key-equality clause is a pure function of the call signature and is swept exhaustively over a small domain; the '
              'sharing / isolation / only-store clauses are decided by seeded simulation of concurrent callers on several loops with '
              'injected evictions.')
LEVEL_NOTE = 'Trusted: as C01; lru.LRU is the real C extension; eviction faults fire at scheduler steps after an invocation exits.'
TECHNIQUE = 'deterministic simulation (concurrent sharing, eviction fault injection) + exhaustive enumeration of small signature pairs'
ASSUMPTIONS = _cache.ASSUMPTIONS + ['all argument values are hashable; equality is Python ==']

# model key -> equal-but-distinct signature variants
VARIANTS = {
    0: [((1,), {'x': 1, 'y': 'a'}), ((1.0,), {'y': 'a', 'x': 1}), ((True,), {'y': 'a', 'x': True})],
    1: [((1, 'a'), {}), ((1.0, 'a'), {}), ((True, 'a'), {})],
    2: [(('a', 1), {}), (('a', 1.0), {})],
    3: [((), {'x': 1}), ((), {'x': 1.0})],
}
ORDER = {2: [0, 1], 3: [1, 2, 3]}


class KeyCacheWorld(cw.CacheWorld):
    def __init__(self, prog, sch, aa):
        super().__init__(prog, sch, aa)
        self.keys = [0, 1, 2, 3][:prog['nkeys']] if prog['nkeys'] != 3 else [1, 2, 3]
        self.evictions = {}

    def model_key(self, args, kwargs):
        for k in self.keys:
            a, kwd = VARIANTS[k][0]
            if kw.model_equal((a, kwd), (args, kwargs)):
                return self.keys.index(k)
        return ('unknown', args, tuple(sorted(kwargs.items())))

    def call_args(self, C):
        vs = VARIANTS[self.keys[C.key]]
        a, kwd = vs[(C.ti + C.ci) % len(vs)]
        return tuple(a), dict(kwd)

    def on_evict(self, key):
        self.evictions.setdefault(key, []).append(self.sch.step)

    def judge(self):
        super().judge()
        prog = self.prog
        if self.evictions:
            # a call made after an eviction that never completes = the recomputation the statement promises never happens
            for v in list(self.violations):
                if v['property'] == 'C05' and v['oracle'] in ('cache.livelock', 'cache.deadlock', 'cache.never_finishes'):
                    self.viol('C14', 'cache.no_recomputation_after_eviction',
                              'after an eviction a caller never completes instead of causing one recomputation',
                              f'evictions at steps {self.evictions}; {v["detail"]}')
                    break
        clean = not any(t['life'] == 'early' or 'stop_at' in t for t in prog['threads']) and \
            all(f['kind'] == 'evict' for f in prog['faults']) and all(i['out'] == 'value' for i in prog['invs'])
        store = self.cache
        for k in range(prog['nkeys']):
            succ = [J for J in self.invs if J.key == k and J.how == 'return']
            ev = self.evictions.get(k, [])
            if succ and prog['cache'] in ('evict', 'map', 'dict') and store is not None:
                last = max(succ, key=lambda J: J.step_exit)
                if not any(s > last.step_exit for s in ev) and last.value not in list(store.values()):
                    self.viol('C14', 'cache.store_not_used', 'a computed value is missing from the caller-supplied mapping',
                              f'key {k}: inv {last.i} returned {last.value!r} at step {last.step_exit}, never evicted, '
                              f'but the supplied {type(store).__name__} holds {list(store.values())!r}')
            if prog['cache'] in ('evict', 'map', 'dict') and clean and len(succ) > 1 + len(ev):
                self.viol('C14', 'cache.extra_recomputation', 'more recomputations than evictions',
                          f'key {k}: {len(succ)} successful invocations, {len(ev)} eviction(s) of an existing entry')
            for C in self.callers.values():
                if C.key != k or not C.outcome or C.outcome[0] != 'value' or C.step_call is None:
                    continue
                v = C.outcome[1]
                J = next((J for J in succ if J.value == v), None)
                if J is None:
                    continue
                later_ev = [s for s in ev if J.step_exit is not None and J.step_exit < s < C.step_call]
                if later_ev:
                    self.viol('C14', 'cache.value_survived_eviction', 'a value evicted from the caller-supplied mapping was still returned',
                              f'caller {C.ti}.{C.ci} called at step {C.step_call} got {v!r} computed by inv {J.i} (exit step '
                              f'{J.step_exit}) although the entry was evicted at step {later_ev[0]}')


def batches(tier):
    sigs = kw.signatures(2, 2)
    n = len(sigs)
    b = [{'name': 'keys-enum', 'n': n * n, 'profile': 'enum', 'nsig': n},
         {'name': 'concurrent-nofault', 'n': 3000 if tier == 'quick' else 120000, 'profile': 'c14-nofault'},
         {'name': 'concurrent-evict', 'n': 9000 if tier == 'quick' else 400000, 'profile': 'c14'}]
    b.append({'name': 'keys-lookalike', 'n': 30000 if tier == 'quick' else 400000, 'profile': 'lookalike'})
    if tier == 'thorough':
        b.append({'name': 'keys-sampled-large', 'n': 400000, 'profile': 'sample'})
    return b


def make_case(batch, seed):
    if batch['profile'] == 'enum':
        sigs = kw.signatures(2, 2)
        i, j = divmod(batch['index'], batch['nsig'])
        return {'prog': {'world': 'key', 'sigs': [sigs[i], sigs[j], sigs[i]], 'cache': 'dict' if (i + j) % 2 else 'default'},
                'sched': {}}
    if batch['profile'] == 'lookalike':
        # sig1, a structurally confusable variant of it, sig1 again; sometimes through one decorator object shared by two functions
        rng = random.Random(seed)
        big = kw.signatures(3, 3, nvalues=3, names=3) if not hasattr(make_case, '_big') else make_case._big
        make_case._big = big
        a = big[rng.randrange(len(big))]
        return {'prog': {'world': 'key', 'sigs': [a, a, a], 'cache': rng.choice(['dict', 'default']),
                         'lookalike': rng.randrange(24), 'shared_decorator': rng.random() < 0.3}, 'sched': {}}
    if batch['profile'] == 'sample':
        rng = random.Random(seed)
        big = kw.signatures(3, 3, nvalues=3, names=3) if not hasattr(make_case, '_big') else make_case._big
        make_case._big = big
        a = big[rng.randrange(len(big))]
        if rng.random() < 0.5:
            # a permutation of a's keywords / same positional: likely model-equal
            p, k = a
            k2 = list(k)
            rng.shuffle(k2)
            b = (p, tuple(k2))
        else:
            b = big[rng.randrange(len(big))]
        return {'prog': {'world': 'key', 'sigs': [a, b, a], 'cache': rng.choice(['dict', 'default'])}, 'sched': {}}
    rng = random.Random(seed)
    prog = cw.gen_program(rng, batch['profile'])
    return {'prog': prog, 'sched': {'seed': seed, 'strategy': list(S.pick_strategy(rng))}}


def run_case(case):
    if case['prog']['world'] == 'key':
        return kw.execute(case['prog'])
    return _cache.run_case(case, world_cls=KeyCacheWorld)


def shrink(case):
    if case['prog']['world'] == 'key':
        return iter(())
    return _cache.shrink(case)
