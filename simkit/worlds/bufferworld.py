"""
bufferworld — buffer_until_timeout / BufferAsyncCalls.  Serves C03 (nothing lost), C07 (wait()
is a barrier and returns; shutdown terminates) and C08 (debounce).

Threads: the owner thread runs the buffer's SimLoop (real asyncio.Runner); 0-2 foreign sim threads
submit (and wait_from_anywhere through the real ensure_aw); sync-iterator producers run in SimPool
threads through the real to_async_iter.  Pre-emption at every line of aiuti/asyncio.py.
"""

import asyncio
import json
from functools import partial

from .. import sched as S
from .. import env
from ..loop import SimLoop, install_policy, restore_policy
from ..shims import AsyncioSeams, sim_sleep

Q = 1.0 / 64


class FuncError(Exception):
    pass


class ProducerError(Exception):
    pass


def _w(rng, pairs):
    tot = sum(w for _, w in pairs)
    x = rng.random() * tot
    for v, w in pairs:
        x -= w
        if x < 0:
            return v
    return pairs[-1][0]


# --------------------------------------------------------------- programs
def gen_program(rng, profile, index=None):
    base = profile.split('-')[0]
    T = rng.choice([0.125, 1.0])
    counter = [0]
    T_real = T
    if base in ('c03', 'c08') and rng.random() < 0.12:
        T_real = 0.0            # the grids below keep using a non-zero unit

    def elems(n):
        out = list(range(counter[0], counter[0] + n))
        counter[0] += n
        return out

    gaps = [(0.0, 5), (T / 2, 3), (T - Q, 2), (T + Q, 2), (T, 1), (2 * T, 2), (3 * T + Q, 1)]

    def gen_op(kinds, allow_wait=True):
        kind = _w(rng, kinds)
        op = {'op': kind}
        if kind == 'call':
            op['elems'] = elems(1)
            if base == 'c08' and counter[0] > 1 and rng.random() < 0.2:
                op['elems'] = [rng.randrange(counter[0] - 1)]       # an argument that was submitted before (sets collapse it)
                op['dup'] = True
        elif kind == 'await':
            op['elems'] = elems(1)
            op['delay'] = _w(rng, [(0.0, 4), (T / 2, 2), (T + Q, 2), (2 * T, 1)])
            op['fail'] = rng.random() < 0.2
            if op['fail'] and rng.random() < 0.3:
                op['fail_kind'] = 'cancelled'
        elif kind in ('map_list', 'map_iter', 'amap'):
            n = _w(rng, [(0, 1), (1, 3), (2, 3), (3, 2)])
            op['elems'] = elems(n)
            if kind != 'map_list':
                if base == 'c08':
                    op['delays'] = [0.0] * (n + 1)
                    op['fail_at'] = None
                else:
                    op['delays'] = [_w(rng, [(0.0, 6), (T / 2, 2), (T + Q, 1), (2 * T, 1)]) for _ in range(n + 1)]
                    op['fail_at'] = rng.randrange(n + 1) if rng.random() < 0.25 else None
                    if op['fail_at'] is not None and kind == 'amap' and rng.random() < 0.3:
                        op['fail_kind'] = 'cancelled'
        elif kind == 'wait':
            op['cancel'] = rng.random() < 0.6
        elif kind == 'call_wait':
            op['elems'] = elems(1)
            op['cancel'] = rng.random() < 0.6
        return op

    if base == 'c08':
        kinds = [('call', 6), ('map_list', 2), ('map_iter', 2)]
        nops = rng.randint(1, 8)
    else:
        kinds = [('call', 5), ('await', 2), ('map_list', 1), ('map_iter', 2), ('amap', 2)]
        nops = rng.randint(1, 8)
    ops = []
    t = 0.0
    nsub = 0
    for _ in range(nops):
        t += _w(rng, gaps)
        ks = list(kinds)
        if base == 'c07':
            ks.append(('wait', 5))
            ks.append(('call_wait', 2))
        elif base == 'c03':
            ks.append(('wait', 1.5))
        elif base == 'c08' and rng.random() < 0.2:
            ks.append(('wait', 3))
        op = gen_op(ks)
        if base == 'c08' and op['op'] == 'wait' and not profile.endswith('-flush'):
            op['cancel'] = False
        op['at'] = t
        if op['op'] != 'wait':
            if nsub >= 8:
                continue
            nsub += 1
        ops.append(op)
        if base == 'c07' and rng.random() < 0.25:
            # a second waiter (or submit-and-wait task) at the very same instant: concurrent waiters
            op2 = gen_op([('wait', 1), ('call_wait', 1)])
            op2['at'] = t
            if op2['op'] == 'wait' or nsub < 8:
                nsub += op2['op'] != 'wait'
                ops.append(op2)
    foreign = []
    if base in ('c03', 'c07') and not profile.endswith('-solo') and rng.random() < 0.6:
        for _ in range(_w(rng, [(1, 6), (2, 4)])):
            fops = []
            ft = 0.0
            for _ in range(rng.randint(1, 3)):
                ft += _w(rng, gaps)
                ks = [('call', 5), ('map_list', 1), ('map_iter', 1), ('amap', 1), ('await', 1)]
                op = gen_op(ks)
                op['at'] = ft
                if rng.random() < 0.3:
                    op['in_loop'] = True
                if nsub >= 8:
                    break
                nsub += 1
                fops.append(op)
                if base == 'c07' and rng.random() < 0.6 or base == 'c03' and rng.random() < 0.15:
                    fops.append({'op': 'wait_anywhere', 'at': ft + _w(rng, [(0.0, 4), (T / 2, 1), (T + Q, 1)]),
                                 'cancel': rng.random() < 0.6})
                    ft = fops[-1]['at']
            if fops:
                foreign.append(fops)
    if base == 'c08' and not foreign and rng.random() < 0.2 and ops:
        tw = ops[rng.randrange(len(ops))]['at'] + _w(rng, [(0.0, 2), (T / 2, 2), (Q, 1)])
        foreign.append([{'op': 'wait_anywhere', 'at': tw, 'cancel': False}])
    func = []
    for i in range(6):
        fail = rng.random() < (0.25 if not profile.endswith('-nofail') else 0.0)
        if fail and rng.random() < 0.25:
            fail = 'cancelled'
        func.append({'dur': _w(rng, [(0.0, 5), (T / 2, 3), (T + Q, 2), (2 * T, 1)]), 'fail': fail})
    prog = {'world': 'buffer', 'profile': profile, 'T': T_real, 'ops': ops, 'foreign': foreign, 'func': func,
            # (2) the wrapped callable may be an ordinary function returning an awaitable that is not a coroutine
            'func_form': _w(rng, [('async', 6), ('returns_task', 2), ('returns_future', 1)]),
            'form': _w(rng, [('direct', 5), ('deco', 3), ('bare', 2)]) if T_real == 1.0 else _w(rng, [('direct', 6), ('deco', 4)])}
    prog['driver'] = 'pre' if rng.random() < 0.35 else 'seq'
    if base == 'c03' and rng.random() < 0.3:
        prog['final'] = 'sleep'         # no closing wait(): "eventually" must not depend on somebody waking the loop
    if base in ('c03', 'c08') and rng.random() < 0.3:
        # a second, independent buffer object on the same loop with a little traffic of its own
        n2 = rng.randint(1, 3)
        t2 = 0.0
        by = []
        for j in range(n2):
            t2 += _w(rng, gaps)
            by.append({'at': t2, 'elem': 1000 + j})
        prog['bystander'] = {'T': rng.choice([0.125, 1.0]), 'ops': by}
        if rng.random() < 0.4:
            prog['bystander']['same_opts'] = True    # same timeout; in the options form: one decorator object, two functions
    if base in ('c03', 'c08') and not prog['foreign'] and rng.random() < 0.25:
        # the creating thread keeps the loop as its current loop but lets loop_in_thread() run it: it then submits as an
        # ordinary thread.  No waits in this configuration; the run ends after one long sleep.
        prog['runner'] = 'thread'
        prog['final'] = 'sleep'
        prog['ops'] = [o for o in prog['ops'] if o['op'] not in ('wait', 'call_wait', 'await', 'amap')]
    if base == 'c07' and profile.endswith('-shutdown'):
        prog['foreign'] = []
        horizon = (ops[-1]['at'] if ops else 0.0) + 3 * T
        prog['shutdown_at'] = _w(rng, [(rng.randrange(0, int(horizon / Q) + 1) * Q, 6),
                                       ((ops[rng.randrange(len(ops))]['at'] if ops else 0.0) + _w(rng, [(0.0, 2), (Q, 2), (T / 2, 2), (T, 1), (T + Q, 2)]), 4)])
        prog['ops'] = [o for o in ops if o['op'] != 'wait' or rng.random() < 0.3]
    return prog


# ------------------------------------------------------------------ world
class Sub:
    def __init__(self, sid, thread, op):
        self.sid = sid
        self.thread = thread            # 'owner' | foreign index
        self.op = op
        self.elems = list(op.get('elems', ()))
        self.produced = []              # elements the producer actually yielded
        self.finished = False           # producer ran to its end (or failed)
        self.t = None
        self.step_done = None           # step at which the submitting call returned


class Invocation:
    def __init__(self, i, args, t, step):
        self.i = i
        self.args = args
        self.t0 = t
        self.step0 = step
        self.t1 = None
        self.step1 = None
        self.outcome = None


class Wait:
    def __init__(self, wid, thread, op, t, step):
        self.wid = wid
        self.thread = thread
        self.op = op
        self.t0 = t
        self.step0 = step
        self.t1 = None
        self.step1 = None
        self.error = None


class BufferWorld:

    def __init__(self, prog, sch, aa):
        self.prog = prog
        self.sch = sch
        self.aa = aa
        self.T = prog['T']
        self.subs = []
        self.invs = []
        self.waits = []
        self.violations = []
        self.func_running = False
        self.end = None
        self.phase = 'init'
        self.buf = None
        self.loop = None
        self.fired = {}
        self.harness_errors = []
        self.owner_done = False
        self.foreign_done = 0
        self.buf2 = None
        self.by_calls = []
        self.by_submitted = []
        self.loop_running = False

    def viol(self, prop, oracle, sig, detail, **features):
        self.violations.append({'property': prop, 'oracle': oracle, 'signature': sig, 'detail': detail,
                                'features': features, 'step': self.sch.step, 't': self.sch.clock})
        self.sch.log('VIOL', prop, oracle)

    def count(self, k, n=1):
        self.fired[k] = self.fired.get(k, 0) + n

    # --------------------------------------------------- wrapped function
    async def func(self, inputs):
        sch = self.sch
        i = len(self.invs)
        I = Invocation(i, frozenset(inputs), sch.clock, sch.step)
        self.invs.append(I)
        sch.log('func', i, sorted(inputs))
        if self.func_running:
            self.viol('C08', 'buffer.overlap', 'wrapped function running twice at once',
                      f'invocation {i} started at t={sch.clock} while another is in progress')
        if not inputs:
            self.viol('C08', 'buffer.empty_call', 'wrapped function called with an empty set',
                      f'invocation {i} at t={sch.clock}')
        self.func_running = True
        script = self.prog['func']
        spec = script[i] if i < len(script) else {'dur': 0.0, 'fail': False}
        try:
            if spec['dur']:
                await asyncio.sleep(spec['dur'])
            if spec['fail'] == 'cancelled':
                # the function itself fails with CancelledError (e.g. it awaited a helper that was cancelled)
                self.count('func.fail_with_cancellederror')
                I.outcome = 'fail'
                raise asyncio.CancelledError(f'func {i}')
            if spec['fail']:
                self.count('func.fail')
                raise FuncError(i)
            I.outcome = 'ok'
        except FuncError:
            I.outcome = 'fail'
            raise
        except asyncio.CancelledError:
            if I.outcome != 'fail':
                I.outcome = 'cancelled'
            raise
        finally:
            self.func_running = False
            I.t1, I.step1 = sch.clock, sch.step
            if S.CUR is sch:
                sch.log('func-end', i, I.outcome)

    # ------------------------------------------------------------ producers
    def sync_source(self, sub):
        op = sub.op
        try:
            for j, e in enumerate(sub.elems + [None]):
                d = op['delays'][j]
                if d:
                    sim_sleep(d)
                if op.get('fail_at') == j:
                    self.count('producer.fail')
                    raise (asyncio.CancelledError(f'producer {sub.sid}') if op.get('fail_kind') == 'cancelled'
                           else ProducerError(sub.sid, j))
                if j < len(sub.elems):
                    sub.produced.append(e)
                    yield e
        finally:
            sub.finished = True

    async def async_source(self, sub):
        op = sub.op
        try:
            for j, e in enumerate(sub.elems + [None]):
                d = op['delays'][j]
                if d:
                    await asyncio.sleep(d)
                if op.get('fail_at') == j:
                    self.count('producer.fail')
                    raise (asyncio.CancelledError(f'producer {sub.sid}') if op.get('fail_kind') == 'cancelled'
                           else ProducerError(sub.sid, j))
                if j < len(sub.elems):
                    sub.produced.append(e)
                    yield e
        finally:
            sub.finished = True

    async def awaitable(self, sub):
        op = sub.op
        try:
            if op['delay']:
                await asyncio.sleep(op['delay'])
            if op['fail']:
                self.count('producer.fail')
                if op.get('fail_kind') == 'cancelled':
                    raise asyncio.CancelledError(f'producer {sub.sid}')
                raise ProducerError(sub.sid, 0)
            sub.produced.append(sub.elems[0])
            return sub.elems[0]
        finally:
            sub.finished = True

    def submit(self, thread, op):
        sch = self.sch
        sub = Sub(len(self.subs), thread, op)
        self.subs.append(sub)
        sub.t = sch.clock
        kind = op['op']
        sch.log('submit', sub.sid, kind, thread)
        buf = self.buf
        if kind == 'call':
            sub.produced.append(sub.elems[0])
            sub.finished = True
            buf(sub.elems[0])
        elif kind == 'await':
            buf.await_(self.awaitable(sub))
        elif kind == 'map_list':
            sub.produced.extend(sub.elems)
            sub.finished = True
            buf.map(list(sub.elems))
        elif kind == 'map_iter':
            buf.map(self.sync_source(sub))
        elif kind == 'amap':
            buf.amap(self.async_source(sub))
        sub.step_done = sch.step
        return sub

    # ---------------------------------------------------------------- owner
    async def do_wait(self, thread, op):
        sch = self.sch
        W = Wait(len(self.waits), thread, op, sch.clock, sch.step)
        self.waits.append(W)
        sch.log('wait', W.wid, thread, op['cancel'])
        try:
            if thread == 'owner':
                await self.buf.wait(cancel=op['cancel'])
            else:
                await self.buf.wait_from_anywhere(cancel=op['cancel'])
            W.t1, W.step1 = sch.clock, sch.step
            sch.log('wait-ret', W.wid)
            self.check_barrier(W)
        except asyncio.CancelledError:
            W.error = 'cancelled'
            raise
        except BaseException as e:  # noqa
            W.error = f'{type(e).__name__}: {e}'
            if S.CUR is sch:
                self.viol('C07', 'buffer.wait_raised', 'wait() raised', f'wait {W.wid} ({thread}) raised {W.error}')

    async def call_then_wait(self, op):
        """`buffer(x); await buffer.wait()` in one task step."""
        self.submit('owner', dict(op, op='call'))
        await self.do_wait('owner', op)

    def check_barrier(self, W):
        delivered = set()
        for I in self.invs:
            if I.outcome == 'ok' and I.step1 is not None and I.step1 <= W.step1:
                delivered |= I.args
        for sub in self.subs:
            if sub.thread != W.thread or sub.step_done is None or sub.step_done > W.step0:
                continue
            missing = [e for e in sub.produced if e not in delivered]
            if not sub.finished:
                self.viol('C07', 'buffer.barrier', 'wait() returned before a producer submitted earlier had finished',
                          f'wait {W.wid} ({W.thread}, cancel={W.op["cancel"]}) called t={W.t0} returned t={W.t1}; '
                          f'submission {sub.sid} ({sub.op["op"]}) still producing', kind=sub.op['op'], thread=str(W.thread))
            elif missing:
                self.viol('C07', 'buffer.barrier', 'wait() returned before earlier arguments were delivered successfully',
                          f'wait {W.wid} ({W.thread}, cancel={W.op["cancel"]}) called t={W.t0} returned t={W.t1}; '
                          f'elements {missing} of submission {sub.sid} ({sub.op["op"]}, submitted t={sub.t}) not yet in a '
                          f'successful call', kind=sub.op['op'], thread=str(W.thread))

    def wrapped(self):
        form = self.prog.get('func_form', 'async')
        if form == 'async':
            return self.func
        if form == 'returns_task':
            def func_task(inputs):
                return asyncio.get_running_loop().create_task(self.func(inputs))
            return func_task

        def func_future(inputs):
            return asyncio.ensure_future(asyncio.gather(self.func(inputs)))
        return func_future

    def make_buffers(self):
        aa = self.aa
        p = self.prog
        f = self.wrapped()
        if p['form'] == 'direct':
            self.buf = aa.buffer_until_timeout(f, timeout=self.T)
        elif p['form'] == 'deco':
            deco = aa.buffer_until_timeout(timeout=self.T)
            self.buf = deco(f)
        else:
            self.buf = aa.buffer_until_timeout(f)          # default timeout == 1
        if p.get('bystander'):
            if p['bystander'].get('same_opts') and p['form'] in ('direct', 'deco'):
                # same option value; in the options form the *same decorator object* wraps this second function
                self.buf2 = deco(self.func2) if p['form'] == 'deco' else aa.buffer_until_timeout(self.func2, timeout=self.T)
            else:
                self.buf2 = aa.buffer_until_timeout(self.func2, timeout=p['bystander']['T'])
            for o in p['bystander']['ops']:
                self.loop.call_at(o['at'], self.by_submit, o)

    async def func2(self, inputs):
        self.by_calls.append((self.sch.clock, frozenset(inputs)))
        self.sch.log('func2', sorted(inputs))

    def by_submit(self, o):
        self.by_submitted.append(o['elem'])
        self.buf2(o['elem'])

    def run_in_thread(self):
        """The creator thread sets the loop as current, builds the buffer, then hands the loop to loop_in_thread()."""
        sch = self.sch
        p = self.prog
        loop = self.loop = SimLoop()
        asyncio.set_event_loop(loop)
        self.make_buffers()
        stop = self.aa.loop_in_thread(loop)
        self.loop_running = True
        self.phase = 'program'
        for op in p['ops']:
            if op['at'] > sch.clock:
                sch.sleep(op['at'] - sch.clock)
            self.submit('owner', op)
        horizon = max([o['at'] for o in p['ops']] + [o['at'] for o in (p.get('bystander') or {}).get('ops', ())] + [0.0]) \
            + 1.0 + 4 * max(self.T, (p.get('bystander') or {}).get('T', 0.0)) + sum(f['dur'] + self.T for f in p['func']) \
            + sum(sum(o.get('delays', ())) for o in p['ops'])
        self.phase = 'final-sleep'
        if horizon > sch.clock:
            sch.sleep(horizon - sch.clock)
        self.phase = 'done'
        stop()
        asyncio.set_event_loop(None)

    async def amain(self):
        sch = self.sch
        aa = self.aa
        p = self.prog
        loop = self.loop = asyncio.get_running_loop()
        self.make_buffers()
        self.loop_running = True
        self.phase = 'program'
        wtasks = []
        sd = p.get('shutdown_at')

        def run_op(op):
            if op['op'] == 'wait':
                wtasks.append(loop.create_task(self.do_wait('owner', op)))
            elif op['op'] == 'call_wait':
                wtasks.append(loop.create_task(self.call_then_wait(op)))
            else:
                self.submit('owner', op)
        ops = [op for op in p['ops'] if sd is None or op['at'] <= sd]
        if p.get('driver') == 'pre':
            # every operation is a timer registered before the buffer arms any of its own: at an exact tie between a
            # submission and the quiet timer the submission is processed first (the sequential driver gives the other order)
            fired = [0]

            def fire(group):
                # one timer per instant: simultaneous operations happen in program order
                for op in group:
                    fired[0] += 1
                    run_op(op)
            groups = {}
            for op in ops:
                groups.setdefault(op['at'], []).append(op)
            for at in sorted(groups):
                loop.call_at(at, fire, groups[at])
            last = max([op['at'] for op in ops] + [0.0])
            if last > loop.time():
                await asyncio.sleep(last - loop.time())
            while fired[0] < len(ops):
                # a timer that is due is queued behind the handles that are already ready (this task among them): the
                # program's last operation must have happened before the closing wait()/sleep below begins
                await asyncio.sleep(0)
            ops = []
        for op in ops:
            if op['at'] > loop.time():
                await asyncio.sleep(op['at'] - loop.time())
            run_op(op)
        if sd is not None:
            if sd > loop.time():
                await asyncio.sleep(sd - loop.time())
            self.phase = 'shutdown'
            sch.log('shutdown-begin')
            return
        if p.get('final') == 'sleep':
            # No closing wait() and no polling: the owner sleeps ONCE, so nothing but the buffer's own thread-safe hand-off
            # wakes the loop while foreign threads submit.  Long enough for every submission instant, producer delay,
            # failing invocation's retry and the quiet period.
            allops = p['ops'] + [x for fo in p['foreign'] for x in fo]
            by = p.get('bystander') or {}
            horizon = max([o['at'] for o in allops] + [o['at'] for o in by.get('ops', ())] + [0.0]) + 1.0 + 4 * max(self.T, by.get('T', 0.0)) \
                + sum(f['dur'] + self.T for f in p['func']) + sum(
                sum(o.get('delays', ())) + o.get('delay', 0.0) for o in allops)
            self.phase = 'final-sleep'
            if horizon > loop.time():
                await asyncio.sleep(horizon - loop.time())
            if self.foreign_done >= len(p['foreign']) and all(t.done() for t in wtasks):
                self.phase = 'done'
                return
        # normal end: wait for foreign threads, then the final barrier
        while self.foreign_done < len(p['foreign']):
            await asyncio.sleep(Q)
        if wtasks:
            await asyncio.gather(*wtasks, return_exceptions=True)
        self.phase = 'final-wait'
        await self.do_wait('owner', {'cancel': True, 'final': True})
        self.phase = 'done'

    def owner(self):
        sch = self.sch
        if self.prog.get('runner') == 'thread':
            try:
                self.run_in_thread()
            except S.Abort:
                raise
            except BaseException as e:  # noqa
                self.harness_errors.append(f'owner: {type(e).__name__}: {e}')
            finally:
                self.owner_done = True
                self.loop_running = False
            return
        try:
            runner = asyncio.Runner(loop_factory=SimLoop)
            with runner:
                try:
                    runner.run(self.amain())
                finally:
                    self.state_at_shutdown = self.describe_state()
                    if self.phase == 'shutdown':
                        self.phase = 'closing'
                    self.daemon = getattr(self.buf, '_waiting', None)
            if self.phase == 'closing':
                self.phase = 'closed'
        except S.Abort:
            raise
        except BaseException as e:  # noqa
            self.harness_errors.append(f'owner: {type(e).__name__}: {e}')
        finally:
            self.owner_done = True
            self.loop_running = False

    def describe_state(self):
        if self.func_running:
            return 'function_running'
        g = getattr(self.buf, '_getting', None)
        if g is not None and not g.done():
            return 'timer_armed'
        if any(not s.finished for s in self.subs):
            return 'collecting'
        return 'idle'

    # -------------------------------------------------------------- foreign
    def foreign(self, fi):
        sch = self.sch
        ops = self.prog['foreign'][fi]
        try:
            sch.block(lambda: self.loop_running or self.owner_done, None, 'await-owner')
            loop = None
            for op in ops:
                if op['at'] > sch.clock:
                    sch.sleep(op['at'] - sch.clock)
                if self.owner_done:
                    break
                if op['op'] == 'wait_anywhere':
                    if loop is None:
                        loop = SimLoop()
                        asyncio.set_event_loop(loop)
                    loop.run_until_complete(self.do_wait(fi, op))
                elif op.get('in_loop'):
                    # the submitting thread runs an event loop of its own and submits from a coroutine on it
                    if loop is None:
                        loop = SimLoop()
                        asyncio.set_event_loop(loop)
                    self.count('submit.from_foreign_running_loop')

                    async def sub():
                        self.submit(fi, op)
                        await asyncio.sleep(0)
                    loop.run_until_complete(sub())
                else:
                    self.submit(fi, op)
            if loop is not None:
                loop.close()
                asyncio.set_event_loop(None)
        except S.Abort:
            raise
        except BaseException as e:  # noqa
            self.harness_errors.append(f'foreign {fi}: {type(e).__name__}: {e}')
        finally:
            self.foreign_done += 1

    def main(self):
        sch = self.sch
        ths = [sch.spawn(self.owner, 'owner')]
        for fi in range(len(self.prog['foreign'])):
            ths.append(sch.spawn(partial(self.foreign, fi), f'foreign{fi}'))
        sch.join(ths)
        self.sch.seams.shutdown_pools()

    # --------------------------------------------------------------- judge
    def judge(self, props):
        sch = self.sch
        end = self.end
        for e in self.harness_errors:
            self.viol('HARNESS', 'harness.error', 'harness error', e)
        stuck_waits = [W for W in self.waits if W.t1 is None and W.error is None]
        if end in ('quiescent', 'livelock'):
            if self.phase == 'closing':
                self.viol('C07', 'buffer.shutdown_hang', 'event-loop shutdown never terminates',
                          f'Runner.close() did not finish: state at shutdown = {self.state_at_shutdown}, '
                          f'shutdown at t={self.prog.get("shutdown_at")}, run ended {end} at t={sch.clock}',
                          state=self.state_at_shutdown)
            elif stuck_waits:
                W = stuck_waits[0]
                self.viol('C07', 'buffer.wait_hang', 'wait() never returns although the function can succeed',
                          f'wait {W.wid} ({W.thread}, cancel={W.op["cancel"]}) called at t={W.t0} still pending when the run '
                          f'ended {end} at t={sch.clock}', thread=str(W.thread), final=bool(W.op.get('final')))
            else:
                self.viol('HARNESS', 'harness.' + end, 'unexpected end', repr([repr(t) for t in sch.threads]))
        elif end == 'stepcap':
            self.viol('HARNESS', 'harness.stepcap', 'step cap', f'{sch.step}')
        if self.phase == 'closed':
            d = getattr(self, 'daemon', None)
            if d is not None and not d.done():
                self.viol('C07', 'buffer.daemon_survives', 'background task not done after shutdown', repr(d))
        # ---- C03
        submitted = {e for s in self.subs for e in s.elems}
        produced = {e for s in self.subs for e in s.produced}
        ok_args = [I for I in self.invs if I.outcome == 'ok']
        for I in self.invs:
            alien = [e for e in I.args if e not in produced]
            if alien:
                self.viol('C03', 'buffer.alien_argument', 'function received an argument that was never submitted/produced',
                          f'invocation {I.i} got {alien}')
        if self.phase == 'done' or end == 'quiescent':
            delivered = set()
            for I in ok_args:
                delivered |= I.args
            lost = sorted(produced - delivered)
            if lost:
                self.viol('C03', 'buffer.lost', 'a submitted argument never reached a successful call',
                          f'elements {lost} (submissions {sorted({s.sid for s in self.subs for e in lost if e in s.produced})}) '
                          f'not delivered by the end of the run (t={sch.clock}, run ended {end}'
                          + (': nothing is runnable or timed any more, so they never will be' if end == 'quiescent' else '') + ')')
            # exactly-once for own-thread submissions
            for s in self.subs:
                if s.thread != 'owner':
                    continue
                for e in s.produced:
                    n = sum(1 for I in ok_args if e in I.args)
                    if n > 1:
                        self.viol('C03', 'buffer.duplicate_delivery', 'own-thread argument delivered to more than one successful call',
                                  f'element {e} of submission {s.sid} in {n} successful invocations', foreign_threads=len(self.prog['foreign']))
                        break
        # the second buffer object is independent: it gets exactly its own arguments, the first one none of them
        if self.prog.get('bystander') and (self.phase == 'done' or end == 'quiescent'):
            got2 = set()
            for t, a in self.by_calls:
                got2 |= a
            alien2 = sorted(got2 - set(self.by_submitted))
            lost2 = sorted(set(self.by_submitted) - got2) if self.prog.get('final') == 'sleep' or end == 'quiescent' else []
            if alien2 or lost2:
                self.viol('C03', 'buffer.crosstalk', 'two buffer objects are not independent',
                          f'second buffer submitted {self.by_submitted}, its function got {sorted(got2)} in {len(self.by_calls)} call(s) '
                          f'(foreign: {alien2}, never delivered: {lost2})')
                if 'C08' in props:
                    self.viol('C08', 'buffer.crosstalk', 'two buffer objects are not independent: a burst went to the wrong function or nowhere',
                              f'second buffer submitted {self.by_submitted}, its function got {sorted(got2)} (foreign: {alien2}, never '
                              f'delivered: {lost2})')
        if 'C08' in props:
            for I in self.invs:
                alien = [e for e in I.args if e not in produced]
                if alien:
                    self.viol('C08', 'buffer.foreign_arguments_in_call', "a call received arguments that were never submitted to this buffer",
                              f'invocation {I.i} at t={I.t0} got {alien}')
                    break
        # retention after failure
        for a, I in enumerate(self.invs):
            if I.outcome != 'fail':
                continue
            for J in self.invs[a + 1:]:
                if not I.args <= J.args:
                    self.viol('C03', 'buffer.dropped_after_failure', 'arguments of a failed call were not offered again',
                              f'invocation {I.i} failed with {sorted(I.args)}; invocation {J.i} got {sorted(J.args)}')
                    break
                if J.outcome == 'ok':
                    break
        if 'C08' in props:
            self.judge_c08()

    # ----------------------------------------------------------------- C08
    def judge_c08(self):
        T = self.T
        if T <= 0:
            # timeout 0 = "flush at once": every arrival ties with its own timer, the timing clauses have nothing to judge
            # (overlap, empty-set, crosstalk and loss checks above stay on)
            return
        arrivals = sorted((s.t, s.sid) for s in self.subs)
        times = [t for t, _ in arrivals]
        # a forced flush (wait(cancel=True)) suspends the debounce claims while it is pending
        forced = [(W.t0, W.t1 if W.t1 is not None else float('inf')) for W in self.waits if W.op.get('cancel')]

        def forced_in(a, b):
            return any(f0 <= b and f1 >= a for f0, f1 in forced)

        for I in self.invs:
            if forced_in(I.t0, I.t0):
                continue
            before = [t for t in times if t < I.t0]
            if before and before[-1] > I.t0 - T:
                self.viol('C08', 'buffer.early_call', 'function called while submissions keep arriving less than timeout apart',
                          f'invocation {I.i} started t={I.t0}, latest earlier submission t={before[-1]} (timeout {T}); '
                          f'forced flushes pending during {forced}')
        if self.end == 'quiescent':
            delivered = set()
            for I in self.invs:
                if I.outcome == 'ok':
                    delivered |= I.args
            lost = sorted({e for sub in self.subs for e in sub.produced} - delivered)
            if lost:
                self.viol('C08', 'buffer.burst_never_called', 'a burst is never followed by a call (the buffer went dead)',
                          f'elements {lost} were submitted but the run became quiescent at t={self.sch.clock} without a call for them; '
                          f'invocations: {[(I.i, I.t0, I.outcome) for I in self.invs]}')
        # bursts
        i = 0
        n = len(arrivals)
        while i < n:
            j = i
            while j + 1 < n and times[j + 1] - times[j] < T:
                j += 1
            first, last = times[i], times[j]
            tie = (i > 0 and times[i] - times[i - 1] == T) or (j + 1 < n and times[j + 1] - times[j] == T)
            s = last + T
            if not tie and not forced_in(first, s) and self.phase == 'done':
                others = [I for I in self.invs if not (I.t0 == s)]
                busy = any(I.t0 <= s and (I.t1 is None or I.t1 >= first) for I in others)
                if not busy:
                    at_s = [I for I in self.invs if I.t0 == s]
                    elems = {e for t, sid in arrivals[i:j + 1] for e in self.subs[sid].produced}
                    if elems or at_s:
                        if len(at_s) != 1:
                            self.viol('C08', 'buffer.burst_call_count', 'a quiet burst did not lead to exactly one call at last+timeout',
                                      f'burst t={first}..{last} (timeout {T}): {len(at_s)} invocation(s) start at t={s}; '
                                      f'invocations start at {[I.t0 for I in self.invs]}')
                        elif not elems <= at_s[0].args:
                            self.viol('C08', 'buffer.burst_split', 'arguments of one burst were not delivered together',
                                      f'burst t={first}..{last}: elements {sorted(elems)} vs call args {sorted(at_s[0].args)}')
            i = j + 1


def execute(prog, sspec, props=('C03',), keep_log=False):
    aa, _ = env.aiuti()
    multi = bool(prog['foreign']) or any(o['op'] == 'map_iter' for o in prog['ops'])
    sch = S.Sched(seed=sspec.get('seed', 0), strategy=sspec.get('strategy', ('sticky', 0.1)),
                  switches=sspec.get('switches'), strict=sspec.get('strict', True),
                  step_cap=prog.get('step_cap', 80_000), trace_files=(aa.__file__,), keep_log=keep_log)
    sch.log('prog', json.dumps(prog, sort_keys=True))
    w = BufferWorld(prog, sch, aa)
    seams = AsyncioSeams(aa).install()
    sch.seams = seams
    install_policy()
    try:
        try:
            sch.run(w.main)
            w.end = 'normal'
        except S.Quiescent:
            w.end = 'quiescent'
        except S.StepCap as e:
            w.end = 'livelock' if e.clock_stuck else 'stepcap'
        except S.ReplayDiverged as e:
            w.end = 'diverged'
            w.harness_errors.append(f'REPLAY-DIVERGED {e}')
    finally:
        restore_policy()
        seams.restore()
    w.judge(set(props))
    for L in sch.loops:
        if not L.is_closed() and not L.is_running():
            try:
                L.close()
            except Exception:
                pass
    fired = dict(w.fired)
    if prog.get('shutdown_at') is not None:
        fired['shutdown.in_state.' + getattr(w, 'state_at_shutdown', 'unknown')] = 1
    return {
        'end': w.end, 'violations': w.violations, 'digest': sch.digest(), 'steps': sch.step, 'vtime': sch.clock,
        'switches': [list(x) for x in sch.switch_log], 'nswitch': sch.nswitch, 'nswitch_traced': sch.nswitch_traced,
        'edges': sch.edges, 'faults': fired,
        'probes': {'buffer.invocations': len(w.invs), 'buffer.retry_after_failure': sum(1 for I in w.invs if I.outcome == 'fail'),
                   'buffer.waits': len(w.waits), 'buffer.foreign_switches': sch.nswitch_traced},
        'leaked': sch.leaked,
        'nontrivial': len(w.subs) >= 2 or sch.nswitch_traced > 0,
        'log': sch.log_list if keep_log else None,
        'outcomes': [(I.i, sorted(I.args), I.t0, I.outcome) for I in w.invs],
        'trace': {'invocations': [[I.i, sorted(I.args), I.t0, I.t1, I.outcome] for I in w.invs],
                  'waits': [[W.wid, W.t0, W.t1] for W in w.waits], 'end': w.end,
                  'bystander': [[t, sorted(a)] for t, a in w.by_calls]},
    }
