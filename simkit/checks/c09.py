"""C09 — see DESIGN.md 3.9."""
from . import _batcher
from ._batcher import REAL, STUB, ASSUMPTIONS, shrink  # noqa
from ..worlds import batcherworld as bw

PROPERTY = 'C09'
LEVEL = 'exploration'
RULE = "as C04 (<=8 calls) plus, for any subset of callers, task.cancel() or a wait_for time-out at grid instants covering 'queued', 'batch running before its result' and 'after its result', shared and distinct keys, retention 0 and >0, later fresh calls. Oracle: the C04 oracle for every caller the harness did not cancel, all of them complete, no background task of the batcher dies. non-trivial = >=2 calls and >=1 batch; distinct by run digest."
LEVEL_TEXT = "Seeded exploration of cancellation instants in virtual time against the real batcher; the effect of a cancellation lands on other callers, so every non-cancelled caller is checked against the batch function's script and the loop's quiescence detects stranded callers."
LEVEL_NOTE = 'Trusted: as C04. Cancelled callers themselves are not judged.'
TECHNIQUE = 'deterministic simulation: virtual-time event loop, caller cancellation/time-out injection at grid instants, bystander outcome oracle'
CHUNK = 500
DESIGN_REF = '3.9'
PROFILES = [('c09', 40000)]


def batches(tier):
    k = 1 if tier == 'quick' else 60
    return [{'name': n, 'n': c * k, 'profile': n} for n, c in PROFILES]


def make_case(batch, seed):
    return _batcher.make_case(batch['profile'], seed)


def run_case(case):
    return bw.execute(case['prog'], case.get('sched'), props=('C09',))
