"""
Removes address-dependent iteration orders from asyncio (a determinism seam).

``asyncio.all_tasks()`` returns a *set* of tasks and ``loop._asyncgens`` is a WeakSet: both
iterate in hash (= object address) order, so the order in which ``Runner.close()`` cancels
tasks and closes async generators differs from process to process.  Here both become
creation-ordered.  Semantics are otherwise unchanged (same members, set interface).
"""

import itertools
import weakref
from collections.abc import Set
from asyncio import tasks as _tasks, futures as _futures, events as _events

_seq = weakref.WeakKeyDictionary()
_counter = itertools.count()


class OSet(Set):
    """Insertion-ordered immutable set."""

    def __init__(self, items=()):
        self._d = dict.fromkeys(items)

    def __contains__(self, x):
        return x in self._d

    def __iter__(self):
        return iter(self._d)

    def __len__(self):
        return len(self._d)

    def __repr__(self):
        return f'OSet({list(self._d)!r})'


class OrderedWeakSet(weakref.WeakSet):
    """WeakSet that iterates in insertion order."""

    def add(self, item):
        if item not in _seq:
            _seq[item] = next(_counter)
        super().add(item)

    def __iter__(self):
        return iter(sorted(super().__iter__(), key=_key))


def _key(x):
    return _seq.get(x, -1)


_installed = []


def install():
    if _installed:
        return
    _installed.append(True)
    ws = _tasks._scheduled_tasks
    orig_add = ws.add

    def add(task):
        if task not in _seq:
            _seq[task] = next(_counter)
        orig_add(task)
    ws.add = add                      # the C task constructor calls ws.add(task)

    def all_tasks(loop=None):
        if loop is None:
            loop = _events.get_running_loop()
        eager = list(getattr(_tasks, '_eager_tasks', ()))
        while True:
            try:
                sched = list(ws)
            except RuntimeError:
                continue
            break
        ts = [t for t in itertools.chain(sched, eager)
              if _futures._get_loop(t) is loop and not t.done()]
        ts.sort(key=_key)
        return OSet(ts)
    _tasks.all_tasks = all_tasks
    import asyncio
    asyncio.all_tasks = all_tasks
