"""C11 — see DESIGN.md 3.11."""
from . import _batcher
from ._batcher import REAL, STUB, ASSUMPTIONS, shrink  # noqa
from ..worlds import batcherworld as bw

PROPERTY = 'C11'
LEVEL = 'exploration'
RULE = "each run = 2..10 calls over 1-3 keys, gaps on a grid around retention_timeout and batch completion, retention_timeout in {0, small, large}, outcomes value / exception, explicit and default keys, no cancellation. Oracle: per key, a call made while the original request is pending or less than retention_timeout after its completion reuses the original's outcome object and adds no batch item; a later call gets a new computation; no batch carries a key twice; exact boundary ties are not judged. distinct by run digest."
LEVEL_TEXT = 'Seeded exploration in exact virtual time: batch identity tags and harness-observed completion instants are compared with the retention-window arithmetic of the statement.'
LEVEL_NOTE = 'Trusted: as C04; completion instant of the original request = instant its caller was answered.'
TECHNIQUE = 'deterministic simulation: virtual-time event loop, retention-window model vs. batch identity tags'
CHUNK = 500
DESIGN_REF = '3.11'
PROFILES = [('c11', 40000)]


def batches(tier):
    k = 1 if tier == 'quick' else 60
    return [{'name': n, 'n': c * k, 'profile': n} for n, c in PROFILES]


def make_case(batch, seed):
    return _batcher.make_case(batch['profile'], seed)


def run_case(case):
    return bw.execute(case['prog'], case.get('sched'), props=('C11',))
