"""C05 — cached calls always terminate, promptly (see DESIGN.md 3.5)."""
from . import _cache
from ._cache import REAL, STUB, ASSUMPTIONS, shrink  # noqa

PROPERTY = 'C05'
LEVEL = 'exploration'
LEVEL_TEXT = "Seeded search over the same cache world with failing/cancelled computations, caller time-outs and loops stopped inside a computation; termination is decided by the scheduler's quiescence/step-cap detectors and promptness by an invariant evaluated at every jump of the virtual clock, so '60 s' and 'as soon as the computation ends' are exact."
LEVEL_NOTE = 'Trusted: as C01; liveness is claimed for fair schedules only (all strategies are fair w.p. 1) and within the step cap.'
TECHNIQUE = 'deterministic simulation: virtual clock idle-wait invariant, deadlock/livelock detection, loop-stop fault injection'
DESIGN_REF = '3.5'
CHUNK = 250
RULE = ('cache world with invocations that succeed / raise / are cancelled, caller time-outs and cancellations, loops '
        'stopped by faults at scheduler steps inside a computation or at grid instants. Oracles: (termination) no run ends '
        'quiescent or step-capped with a caller pending on a running loop; (idle-wait) whenever the virtual clock is about '
        'to jump, every caller pending on a running loop is excused by a live invocation of its key or by a computing loop '
        'that stopped no more than 60 s ago while the caller was already waiting. distinct_nontrivial = distinct run digests '
        'among runs with >=1 cross-thread switch in traced code or >=1 fired fault.')
PROBES_EXPECTED = ('cache.safety_timeout_60', 'cache.cross_loop_wait', 'cache.takeover_dead_loop',
                   'cache.run_coro_ts_closed')


# ---- fault enumeration part: stop the computing loop at EVERY scheduler step of its computation
def _base(end, waiters, strat_seed):
    threads = [{'arrive': 0.0, 'callers': [{'key': 0, 'at': 0.0}], 'life': 'await_all', 'end': end}]
    for w in range(waiters):
        threads.append({'arrive': 0.125 * (w + 1), 'callers': [{'key': 0, 'at': 0.0}], 'life': 'await_all', 'end': 'shutdown'})
    prog = {'world': 'cache', 'profile': 'c05-sweep', 'cache': 'dict', 'nkeys': 1, 'threads': threads,
            'invs': [{'dur': 1.0, 'out': 'value'}, {'dur': 0.125, 'out': 'value'}, {'dur': 0.125, 'out': 'value'}], 'faults': []}
    strat = [('sticky', 0.1), ('sticky', 0.3), ('pct', 2, 300), ('uniform',), ('sticky', 0.02)][strat_seed % 5]
    return {'prog': prog, 'sched': {'seed': 1000 + strat_seed, 'strategy': list(strat)}}


BASES = [_base(end, w, s) for end in ('shutdown', 'close', 'leave') for w in (1, 2) for s in range(3)]
_spans = {}


def _span(bi):
    """Steps [enter, exit] of the first computation of base case bi under its fixed schedule (fault-free run)."""
    from .. import env
    key = (bi, env.REPO)
    if key not in _spans:
        r = _cache.run_case(BASES[bi])
        sp = r['inv_spans'][0] if r['inv_spans'] else (0, 0, 0, None)
        _spans[key] = (sp[1], (sp[2] or sp[1]) + 25)
    return _spans[key]


def batches(tier):
    k = 1 if tier == 'quick' else 40
    out = [{'name': 'nofault', 'n': 4000 * k, 'profile': 'c05-nofault'},
           {'name': 'faults', 'n': 20000 * k, 'profile': 'c05'}]
    nb = 6 if tier == 'quick' else len(BASES)
    for bi in range(nb):
        a, b = _span(bi)
        out.append({'name': f'stop-sweep-{bi}', 'n': max(1, b - a + 1), 'profile': 'sweep', 'base': bi, 'first': a, 'chunk': 100})
    return out


def make_case(batch, seed):
    if batch['profile'] == 'sweep':
        import json
        case = json.loads(json.dumps(BASES[batch['base']]))
        case['prog']['faults'] = [{'kind': 'stop', 'on': 'abs', 'step': batch['first'] + batch['index'], 'thread': 0}]
        return case
    return _cache.make_case(batch['profile'], seed)


def extra_evidence(agg):
    return {'fault_enumeration': 'stop-sweep-* batches stop the computing loop at every scheduler step between the entry of its '
                                 'computation and 25 steps after its exit, for each fixed base program x schedule; the loop then ends by '
                                 'Runner shutdown / close / being left stopped (per base)',
            'exhaustive_dimension': 'stop step within the computation span of each fixed (program, schedule) base case'}


def run_case(case):
    """'Every call finishes - with a value, an exception or its caller's OWN cancellation': C06's foreign-cancel verdict is a C05
    verdict too (the call did not recover by recomputing)."""
    r = _cache.run_case(case)
    for v in list(r['violations']):
        if v['property'] == 'C06' and v['oracle'] == 'cache.foreign_cancel':
            r['violations'].append(dict(v, property='C05', oracle='cache.ended_by_foreign_cancel',
                                        signature="a call ended with a cancellation that was not its caller's own instead of recovering"))
    return r
