"""CLI: python -m simkit.replay <file>   exit 1 + REPRODUCED if the recorded violation recurs,
0 if the run is clean, 2 if the replay diverged from its recorded schedule."""
import sys


def main():
    from simkit import runner
    path = sys.argv[1]
    same, r, doc = runner.replay_file(path)
    if r.get('end') == 'diverged':
        print('REPLAY-DIVERGED')
        sys.exit(2)
    if same:
        exact = r['digest'] == doc['digest']
        print(f'REPRODUCED property={doc["property"]} oracle={doc["oracle"]} digest_match={exact}')
        sys.exit(1)
    print('NOT-REPRODUCED')
    sys.exit(0)


if __name__ == '__main__':
    main()
