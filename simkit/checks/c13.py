"""C13 — a crashed holder never leaves the FileLock stuck (see DESIGN.md 3.13)."""
import random

from ..worlds import procworld as pw

PROPERTY = 'C13'
LEVEL = 'fault_enumeration'
DESIGN_REF = '3.13'
CHUNK = 40
CHUNK_WALL = 600
RULE = ('for each usage script {blocking acquire; timed acquire_ctx; with on a default-timeout lock; reentrant acquire nested 3 deep; two '
        'rounds of with; a process that uses a FileLock object it inherited (already used) from its still-living parent across fork(); a daemon-style process with stdin closed that execs a helper program while holding} a real child process is first stepped alone to completion to count its controller steps n (every line event '
        'inside aiuti/filelock.py plus critical-section markers); then for EVERY k in 0..n a fresh child is stepped to event k and '
        'SIGKILLed, with 0, 1 and 2 other stepped contender processes parked at seeded positions (5 configurations per k in quick, 13 in thorough: contenders x killed process reaped '
        'at once / left a zombie x probe through the blocking / the polling acquire path; the last configuration adds a contender that is already queued inside a blocking flock() on the lock file from the moment the victim holds the lock). After the kill: if the kernel reports the lock free, a fresh process stepped alone must enter its '
        'critical section within the step count of an uncontended acquire (+5); all survivors then run to completion under the overlap '
        'detector (O_EXCL marker + controller ledger) and a late fresh process must again acquire. The lock file is never cleaned up. '
        'Every case kills exactly one process; distinct by event-log digest.')
LEVEL_TEXT = ('Crash-point enumeration with real processes and real SIGKILL: the crash dimension (every line event of each script) is swept '
              'completely; contender positions are seeded. Time is not involved: "promptly" = within the normal number of line events of '
              'an uncontended acquire, with no survivor having to act.')
LEVEL_NOTE = ('Trusted: Linux releases flock when the last descriptor of the open file description closes at process death; children are '
              'forked from a single-threaded controller and close every inherited descriptor. exhaustive refers to the crash-point '
              'dimension of each script only.')
TECHNIQUE = 'deterministic simulation with crash injection: lock-stepped child processes over pipes, SIGKILL at every line event, fresh-process liveness probe, overlap detector'
REAL = ['aiuti.filelock (unmodified source) in real child processes', 'kernel flock / open / close', 'SIGKILL, process exit']
STUB = ['time.time / time.sleep in children (per-child virtual clock)', 'blocking flock (LOCK_NB + wait for the controller)',
        'process scheduling (controller PRNG)']
ASSUMPTIONS = ['Linux; CPython 3.12.1; local file system (tmpfs)', 'one thread per child process']
SCRIPTS = [n for n, sc in pw.CRASH_SCRIPTS.items() if not sc.get('outside_quantifier')]


def batches(tier):
    cfgs = 5 if tier == 'quick' else 13
    out = []
    for name in SCRIPTS:
        n = pw.count_events(name)
        out.append({'name': 'crash-' + name, 'n': (n + 1) * cfgs, 'profile': name, 'nsteps': n, 'cfgs': cfgs, 'chunk': 40})
    return out


def make_case(batch, seed):
    rng = random.Random(seed)
    k, cfg = divmod(batch['index'], batch['cfgs'])
    queued = cfg == batch['cfgs'] - 1      # last configuration: a waiter already queued in flock() when the holder releases / dies
    if queued:
        cfg = k % 4
    ncont = cfg % 3
    conts = []
    for _ in range(ncont):
        sc = pw.gen_script(rng)
        sc['rounds'] = max(sc['rounds'], rng.randint(1, 3))
        conts.append({'script': sc, 'advance': rng.randrange(0, 160)})
    # the killed process is reaped at once or left a zombie; the probe uses the blocking or the polling path
    prog = {'world': 'proc-crash', 'script': batch['profile'], 'kill_at': k, 'contenders': conts,
            'zombie': cfg % 2 == 1, 'timed_probe': (cfg // 2) % 2 == 1}
    if queued:
        prog['queued_waiter'] = True
    if pw.CRASH_SCRIPTS[batch['profile']].get('pre_holder'):
        prog['extra_polls'] = rng.randrange(3)
    return {'prog': prog, 'sched': {'seed': seed}}


def run_case(case):
    return pw.execute_crash(case['prog'], case.get('sched') or {})


def extra_evidence(agg):
    return {'exhaustive_dimension': 'crash point: every controller step 0..n of every script is a kill point',
            'scripts': {name: pw.count_events(name) for name in SCRIPTS}}
