"""Shared pieces of the batcher checks (C04, C09, C10, C11)."""
import json
import random

from ..worlds import batcherworld as bw

REAL = ['aiuti.asyncio.AsyncBackgroundBatcher / async_background_batcher / DaemonTask (unmodified source)',
        'asyncio BaseEventLoop scheduling core, Task/Future, Queue, Semaphore, wait_for, call_later (CPython 3.12.1)']
STUB = ['selector / self-pipe (SimLoop fake selector)', 'loop clock (virtual, discrete-event)',
        'the batch function (harness-owned, scripted per key and per batch)']
ASSUMPTIONS = [
    'CPython 3.12.1 only (wait_for / Queue.get cancellation semantics differ across versions)',
    'single event loop: the schedule is the timed program; all instants are dyadic rationals so ties are exact and are not judged',
    'sampling over the program space, not enumeration',
]


def make_case(profile, seed):
    rng = random.Random(seed)
    return {'prog': bw.gen_program(rng, profile), 'sched': {}}


def _clone(c):
    return json.loads(json.dumps(c))


def shrink(case):
    prog = case['prog']
    n = len(prog['calls'])
    if n > 1:
        for i in range(n):
            c = _clone(case)
            del c['prog']['calls'][i]
            yield c
    for i, cl in enumerate(prog['calls']):
        for k in ('cancel_after', 'timeout'):
            if k in cl:
                c = _clone(case)
                del c['prog']['calls'][i][k]
                yield c
    # compress time: shift later calls earlier
    for i, cl in enumerate(prog['calls']):
        prev = prog['calls'][i - 1]['at'] if i else 0.0
        if cl['at'] > prev:
            c = _clone(case)
            d = cl['at'] - prev
            for j in range(i, n):
                c['prog']['calls'][j]['at'] -= d
            yield c
    for k, v in (('max_concurrent_batches', 1), ('max_batch_size', 5), ('retention_timeout', 0.0),
                 ('order', 'fwd'), ('form', 'class')):
        if prog[k] != v:
            c = _clone(case)
            c['prog'][k] = v
            yield c
    for name in ('batch_dur', 'item_dur'):
        if any(prog[name]):
            c = _clone(case)
            c['prog'][name] = [0.0] * 4
            yield c
    for r, row in enumerate(prog['script']):
        for j, beh in enumerate(row):
            if beh != 'value':
                c = _clone(case)
                c['prog']['script'][r][j] = 'value'
                yield c
    if prog.get('mutate'):
        c = _clone(case)
        del c['prog']['mutate']
        yield c
