#!/bin/bash
# Runs every registered quick (or thorough) command from MANIFEST.json in turn and validates the evidence files.
tier=${1:-quick}
cd /verif
/venv/bin/python - "$tier" <<'PY'
import json, subprocess, sys, time
tier = sys.argv[1]
man = json.load(open('/verif/MANIFEST.json'))
bad = 0
for c in man['checks']:
    cmd = c['quick_cmd'] if tier == 'quick' else c['thorough_cmd']
    t0 = time.time()
    r = subprocess.run(cmd, shell=True, cwd='/verif', capture_output=True, text=True)
    lines = [l for l in r.stdout.split('\n') if l.startswith(('[', 'VIOLATION', 'KNOWN', 'HARNESS'))]
    print(f'{c["property_id"]} exit={r.returncode} {time.time()-t0:.0f}s :: ' + ' | '.join(l[:150] for l in lines[:3]))
    if r.returncode != 0:
        bad += 1
        print(r.stdout[-800:], r.stderr[-800:])
sys.exit(bad)
PY
python3-vt - <<'PY'
import json, jsonschema, glob
sch = json.load(open('/root/.vp/EVIDENCE.schema.json'))
for f in sorted(glob.glob('/verif/evidence/*.json')):
    try:
        jsonschema.validate(json.load(open(f)), sch); 
    except Exception as e:
        print('INVALID', f, str(e)[:300])
print('evidence validated')
PY
