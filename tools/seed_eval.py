#!/venv/bin/python
"""
Evaluate one seeded change written by a sub-agent.
  seed_eval.py <seed_dir> <seed_id> <property> [--tier quick|thorough] [CHECK ...]
1. confirms in the agent's scratch worktree: demo passes on the clean tree, test-suite still passes with the
   change (42 passed), demo fails with the change;
2. applies the patch to /repo, runs the named checks (default: the property's own) with VERIF_OUT in a scratch
   directory, undoes the patch straight afterwards;
3. stores patch.diff, demo.py, notes.md and meta.json under /verif/seeded/<seed_id>/.
"""
import os
import re
import sys
import json
import shutil
import subprocess
import time

args = sys.argv[1:]
tier = 'quick'
if '--tier' in args:
    i = args.index('--tier')
    tier = args[i + 1]
    del args[i:i + 2]
seed_dir, seed_id, prop, *checks = args
checks = checks or [prop]
wt = os.path.dirname(os.path.dirname(os.path.abspath(seed_dir)))
patch = os.path.join(seed_dir, 'patch.diff')
demo = os.path.join(seed_dir, 'demo.py')
env = dict(os.environ, PYTHONPATH=wt)


def sh(cmd, **kw):
    return subprocess.run(cmd, shell=True, capture_output=True, text=True, **kw)


meta = {'seed_id': seed_id, 'breaks_property': prop, 'source': 'fresh sub-agent given only the property text and a scratch worktree',
        'ran': []}
sh(f'git -C {wt} checkout -- aiuti')
r = sh(f'cd {wt} && timeout 300 /venv/bin/python {demo}', env=env)
meta['demo_on_clean_tree_exit'] = r.returncode
r = sh(f'git -C {wt} apply {patch}')
if r.returncode != 0:
    print('patch does not apply:', r.stderr)
    sys.exit(2)
t = sh(f'cd {wt} && timeout 1200 /venv/bin/python -m pytest -q -p no:cacheprovider --timeout=900 2>&1 | tail -3', env=env)
m = re.search(r'(\d+) passed', t.stdout)
meta['test_suite_with_change'] = t.stdout.strip().split('\n')[-1]
meta['tests_passed_with_change'] = int(m.group(1)) if m else 0
r = sh(f'cd {wt} && timeout 300 /venv/bin/python {demo}', env=env)
meta['demo_with_change_exit'] = r.returncode
meta['demo_with_change_tail'] = (r.stdout + r.stderr)[-400:]
sh(f'git -C {wt} checkout -- aiuti')
ok = meta['demo_on_clean_tree_exit'] == 0 and meta['demo_with_change_exit'] != 0 and meta['tests_passed_with_change'] == 42
meta['confirmed'] = ok
print(f'{seed_id}: demo clean={meta["demo_on_clean_tree_exit"]} with-change={meta["demo_with_change_exit"]} '
      f'tests={meta["test_suite_with_change"]!r} confirmed={ok}')
# --- our checks against /repo with the patch applied
assert sh('git -C /repo status --porcelain').stdout.strip() == '', '/repo not clean'
out = f'/tmp/seedout_{seed_id}'
shutil.rmtree(out, ignore_errors=True)
r = sh(f'git -C /repo apply {patch}')
assert r.returncode == 0, r.stderr
try:
    for c in checks:
        t0 = time.time()
        r = sh(f'cd /verif && VERIF_OUT={out} timeout 3000 /venv/bin/python -m simkit.run {c} --tier {tier}')
        viol = [l for l in r.stdout.split('\n') if l.startswith('VIOLATION') or l.startswith('  oracle=')]
        meta['ran'].append({'check': c, 'tier': tier, 'exit': r.returncode, 'wall_s': round(time.time() - t0, 1),
                            'violation_lines': [v.replace(out, '<scratch>')[:300] for v in viol[:6]]})
        print(f'   {c} {tier}: exit={r.returncode} ({time.time() - t0:.0f}s)')
        for v in viol[:4]:
            print('      ', v[:220])
        if r.returncode == 2:
            print(r.stdout[-600:], r.stderr[-600:])
finally:
    sh('git -C /repo checkout -- .')
    shutil.rmtree(out, ignore_errors=True)
assert sh('git -C /repo status --porcelain').stdout.strip() == ''
meta['caught_by'] = [x['check'] + ':' + x['tier'] for x in meta['ran'] if x['exit'] == 1]
dst = f'/verif/seeded/{seed_id}'
os.makedirs(dst, exist_ok=True)
for f in ('patch.diff', 'demo.py', 'notes.md'):
    if os.path.exists(os.path.join(seed_dir, f)):
        shutil.copy(os.path.join(seed_dir, f), os.path.join(dst, f))
old = {}
if os.path.exists(os.path.join(dst, 'meta.json')):
    old = json.load(open(os.path.join(dst, 'meta.json')))
    meta['ran'] = old.get('ran', []) + meta['ran']
    meta['caught_by'] = sorted(set(old.get('caught_by', []) + meta['caught_by']))
if os.path.exists(os.path.join(seed_dir, 'notes.md')):
    meta['needs_to_manifest'] = open(os.path.join(seed_dir, 'notes.md')).read()[:1500]
json.dump(meta, open(os.path.join(dst, 'meta.json'), 'w'), indent=1)
