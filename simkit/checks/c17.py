"""C17 — cross-loop awaiting (see DESIGN.md 3.17)."""
import json
import random

from .. import sched as S
from ..worlds import crossworld as cw

PROPERTY = 'C17'
LEVEL = 'exploration'
DESIGN_REF = '3.17'
CHUNK = 250
RULE = ('each run = 1..3 caller threads, each running its own SimLoop, calling ensure_aw (or run_aw_threadsafe on a running target) '
        'on one target loop that is the caller\'s own / idle / running through the real loop_in_thread / closed, with a coroutine, '
        'future or task that returns or raises after a delay from a grid; _CROSS_LOOP_POOL is a SimPool(32); one seeded schedule '
        'with pre-emption at every line of aiuti/asyncio.py. Oracles: result/exception object identity; the awaitable observes the '
        'target as its running loop; SimLoop never sees a second thread enter run_forever; loop_in_thread returns only while '
        'is_running() and its stopper returns only when not (in a third of the runs that end on a running target the stop function is called by two threads at once; sometimes a second phase reuses the same target loop in the other state); closed target -> RuntimeError; quiescence with an ensure_aw caller '
        'pending = hang. non-trivial = >=1 cross-thread switch inside traced code; distinct by run digest.')
LEVEL_TEXT = ('Seeded search over target states, awaitable kinds/delays and line-level interleavings of the caller threads with the '
              'helper threads that run borrowed loops; completion is decided by the scheduler\'s quiescence detector, exclusivity by '
              'a monitor inside SimLoop.run_forever.')
LEVEL_NOTE = ('Trusted: CPython 3.12.1 asyncio; SimPool stands in for the shared 32-thread pool; futures/tasks on the target are '
              'created while it is not running (creating them from a foreign thread on a running loop is not thread-safe in asyncio).')
TECHNIQUE = 'deterministic simulation: seeded thread scheduler over caller and helper threads, virtual-time loops, runner-thread monitor, quiescence hang detector'
REAL = ['aiuti.asyncio.ensure_aw / run_aw_threadsafe / loop_in_thread / _get_loop_lock (unmodified source, line-traced)',
        'asyncio loop core, run_coroutine_threadsafe, wrap_future, run_in_executor (CPython 3.12.1)',
        'threading.Lock state (inside SimLock)', 'concurrent.futures.Future']
STUB = ['_CROSS_LOOP_POOL (SimPool)', 'selector / clock', 'time.sleep(0) spin (scheduler yield that de-prioritises the spinner)',
        'blocking part of Lock.acquire / Future.result', 'thread scheduling']
ASSUMPTIONS = ['CPython 3.12.1 only', 'nobody but the helpers stops the target loop while a caller is pending', 'sampling, not enumeration']
PROBES_EXPECTED = tuple(cw.PROBE_PATTERNS)


def batches(tier):
    k = 1 if tier == 'quick' else 40
    return [{'name': 'single', 'n': 3000 * k, 'profile': 'c17-single'},
            {'name': 'concurrent', 'n': 12000 * k, 'profile': 'c17'}]


def make_case(batch, seed):
    rng = random.Random(seed)
    prog = cw.gen_program(rng, batch['profile'])
    return {'prog': prog, 'sched': {'seed': seed, 'strategy': list(S.pick_strategy(rng))}}


def run_case(case):
    return cw.execute(case['prog'], case.get('sched') or {})


def shrink(case):
    p = case['prog']
    if p.get('phase2'):
        c = json.loads(json.dumps(case))
        del c['prog']['phase2']
        yield c
        if len(p['phase2']['callers']) > 1:
            for i in range(len(p['phase2']['callers'])):
                c = json.loads(json.dumps(case))
                del c['prog']['phase2']['callers'][i]
                yield c
    if len(p['callers']) > 1:
        for i in range(len(p['callers'])):
            c = json.loads(json.dumps(case))
            del c['prog']['callers'][i]
            yield c
    for i, cl in enumerate(p['callers']):
        for k, v in (('kind', 'coro'), ('out', 'return'), ('start', 0.0), ('delay', 0.0)):
            if cl[k] != v:
                c = json.loads(json.dumps(case))
                c['prog']['callers'][i][k] = v
                yield c
