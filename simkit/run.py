"""CLI: python -m simkit.run <PROPERTY> [--tier quick|thorough] [--procs N]"""
import os
import sys
import argparse


def main():
    ap = argparse.ArgumentParser()
    ap.add_argument('property')
    ap.add_argument('--tier', default=os.environ.get('VERIF_TIER', 'quick'))
    ap.add_argument('--procs', type=int, default=None)
    a = ap.parse_args()
    if os.environ.get('PYTHONHASHSEED') is None:
        # fixed hash seed: nothing decided or logged depends on it (see selftest), this is belt and braces
        os.environ['PYTHONHASHSEED'] = '0'
        os.execv(sys.executable, [sys.executable, '-m', 'simkit.run'] + sys.argv[1:])
    from simkit import runner
    seed = int(os.environ.get('VERIF_SEED', runner.DEFAULT_SEED))
    tier = a.tier if a.tier in ('quick', 'thorough') else 'quick'
    try:
        code = runner.run_check(a.property.upper(), tier, seed, a.procs)
    except SystemExit:
        raise
    except BaseException as e:  # noqa
        import traceback
        traceback.print_exc()
        print('HARNESS-ERROR:', type(e).__name__, e)
        code = 2
    sys.exit(code)


if __name__ == '__main__':
    main()
