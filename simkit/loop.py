"""
simkit.loop — a virtual-time asyncio event loop driven by simkit.sched.

Everything but the selector, the self-pipe and the clock is the real CPython 3.12
``asyncio.BaseEventLoop``: ``run_forever``, ``_run_once``, handles, timers, tasks,
futures, ``Runner`` ... run unmodified.
"""

import asyncio
from asyncio import base_events
import threading

from . import sched as _sched
from .detorder import OrderedWeakSet


class _SimSelector:
    """What ``BaseEventLoop._run_once`` needs from a selector."""

    def __init__(self, loop):
        self.loop = loop

    def select(self, timeout=None):
        loop = self.loop
        s = loop._sim
        if timeout is not None and timeout <= 0:
            s.yield_point()
            loop._wake = False
            return ()
        if loop._wake:
            loop._wake = False
            s.yield_point()
            return ()
        if timeout is None:
            wake_at = None
        else:
            wake_at = s.clock + timeout
            sch = loop._scheduled
            if sch:
                # use the timer's own deadline: no float round trip through `timeout`
                w = sch[0]._when
                if s.clock < w <= wake_at + 1e-9:
                    wake_at = w
        s.block(loop._is_woken, wake_at, 'select')
        loop._wake = False
        return ()

    def close(self):
        pass


class DoubleRun(Exception):
    pass


class SimLoop(base_events.BaseEventLoop):

    _counter = 0

    def __init__(self):
        super().__init__()
        s = _sched.CUR
        if s is None:
            raise RuntimeError('SimLoop created outside a simulation run')
        self._sim = s
        self._selector = _SimSelector(self)
        self._asyncgens = OrderedWeakSet()
        self._wake = False
        self._clock_resolution = 1e-9
        self.run_epoch = 0
        self.epoch_end = {}         # run epoch -> virtual time at which that run of the loop ended
        self.epoch_end_step = {}    # ... and the global step
        self.sim_id = len(s.loops)
        s.loops.append(self)
        self.runner = None          # sim thread currently inside run_forever
        self.double_run = 0
        self.exc_contexts = []
        self.set_exception_handler(_record_exc_context)

    def _is_woken(self):
        return self._wake

    def time(self):
        return self._sim.clock

    def _process_events(self, event_list):
        pass

    def _write_to_self(self):
        self._wake = True

    def run_in_executor(self, executor, func, *args):
        # asyncio.to_thread() / run_in_executor(None, ...): the loop's default executor is created inside asyncio, out of
        # reach of the module seams; give the loop a pool of sim threads instead of real, unscheduled ones
        if executor is None:
            self._check_closed()
            if self._default_executor is None:
                from .shims import SimPool
                self._default_executor = SimPool(32)
            executor = self._default_executor
        return super().run_in_executor(executor, func, *args)

    async def shutdown_default_executor(self, timeout=None):
        # asyncio does this from a real helper thread; here the pool's workers are sim threads, so wait for them in place
        self._executor_shutdown_called = True
        ex = self._default_executor
        if ex is not None:
            ex.shutdown(wait=True)

    def run_forever(self):
        me = self._sim.me()
        if self.is_running() or self.is_closed() or asyncio._get_running_loop() is not None:
            if self.is_running() and self.runner is not me:
                self.double_run += 1
                self._sim.log('double-run', self.sim_id)
            return super().run_forever()        # raises RuntimeError
        self.runner = me
        try:
            super().run_forever()
        finally:
            self.runner = None
            self.epoch_end[self.run_epoch] = self._sim.clock
            self.epoch_end_step[self.run_epoch] = self._sim.step
            self.run_epoch += 1

    def __repr__(self):
        return f'<SimLoop {self.sim_id} running={self.is_running()} closed={self.is_closed()}>'


def _record_exc_context(loop, context):
    loop.exc_contexts.append(context)


class SimPolicy(asyncio.DefaultEventLoopPolicy):
    _loop_factory = SimLoop


_saved_policy = []


def install_policy():
    _saved_policy.append(asyncio.get_event_loop_policy())
    asyncio.set_event_loop_policy(SimPolicy())


def restore_policy():
    if _saved_policy:
        asyncio.set_event_loop_policy(_saved_policy.pop())
