#!/bin/bash
# Soak: every claimed check, quick tier, over a range of VERIF_SEED values, on the unchanged tree.
# Any exit != 0 is printed with its output tail.  usage: soak.sh FIRST LAST [tier]
first=${1:-1}; last=${2:-10}; tier=${3:-quick}
out=$(mktemp -d /tmp/soak_XXXX)
props=$(/venv/bin/python -c "import json; print(' '.join(c['property_id'] for c in json.load(open('MANIFEST.json'))['checks']))")
for seed in $(seq $first $last); do
  for p in $props; do
    r=$(VERIF_SEED=$seed VERIF_OUT=$out /venv/bin/python -m simkit.run $p --tier $tier 2>&1); code=$?
    if [ $code -ne 0 ]; then echo "SOAK-ALARM seed=$seed $p exit=$code"; echo "$r" | tail -12; cp -r $out/replays /tmp/soak_replays_${seed}_$p 2>/dev/null; fi
  done
  echo "seed $seed done $(date +%T)"
done
rm -rf $out
echo SOAK-FINISHED
