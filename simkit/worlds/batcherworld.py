"""
batcherworld — AsyncBackgroundBatcher / async_background_batcher on one virtual-time loop.
Serves C04 (outcomes), C09 (caller cancellation), C10 (limits/order/time-out), C11 (retention).

Everything is single-threaded: the schedule is fully determined by the timed program, so the
"schedule space" is the space of arrival/duration/cancellation instants in virtual time.
All times are dyadic rationals (exact in floats); exact ties are detected exactly.
"""

import asyncio
import json
import random

from .. import sched as S
from .. import env
from ..loop import SimLoop, install_policy, restore_policy

E = 1.0 / 1024          # margin used to stay off exact ties
BT_CHOICES = (0.0625, 0.25)


class BatchError(Exception):
    """Raised by the batch function itself."""


class BatchBaseError(BaseException):
    """Raised by the batch function; not an Exception subclass."""


class ItemError(Exception):
    """Yielded as a per-key failure."""


class ItemKeyError(KeyError):
    """A yielded failure that is a subclass of a builtin Exception subclass."""


def _w(rng, pairs):
    tot = sum(w for _, w in pairs)
    x = rng.random() * tot
    for v, w in pairs:
        x -= w
        if x < 0:
            return v
    return pairs[-1][0]


# --------------------------------------------------------------- programs
def gen_program(rng, profile):
    base = profile.split('-')[0]
    bt = rng.choice(BT_CHOICES)
    R = 0.0
    if base in ('c04', 'c09'):
        R = _w(rng, [(0.0, 5), (bt * 3, 3), (4.0, 2)])
    if base == 'c11':
        R = _w(rng, [(0.0, 3), (bt * 2, 4), (bt / 2, 1), (4.0, 3)])
    prog = {
        'world': 'batcher', 'profile': profile,
        'form': _w(rng, [('class', 6), ('func', 2), ('deco', 2)]),
        'max_batch_size': _w(rng, [(1, 2), (2, 4), (3, 3), (4, 1), (5, 1)]),
        'max_concurrent_batches': _w(rng, [(1, 4), (2, 3), (3, 2)]),
        'batch_timeout': bt,
        'retention_timeout': R,
        'perm_seed': rng.randrange(1 << 30),
        'order': _w(rng, [('fwd', 4), ('rev', 3), ('shuffle', 3)]),
    }
    ncalls = {'c04': 10, 'c09': 8, 'c10': 12, 'c11': 10}[base]
    n = rng.randint(2, ncalls)
    gaps = [(0.0, 6), (bt / 2, 3), (bt - E, 2), (bt + E, 2), (2 * bt, 2), (4 * bt, 1)]
    if base == 'c11' and R > 0:
        gaps += [(R - E, 2), (R + E, 2), (R / 2, 1), (2 * R, 1)]
    if base == 'c10':
        gaps += [(bt, 1)]
    if profile.endswith('-tie'):
        # a partial batch, then several calls at the very instant its timer expires
        gaps = [(0.0, 6), (bt, 5), (bt / 2, 2), (bt + E, 1), (2 * bt, 1)]
    nk = rng.choice([1, 2, 3]) if base == 'c11' else rng.choice([2, 3, 4])
    hot = profile.endswith('-hot')
    if hot:
        nk = rng.choice([1, 2])
        gaps = [(0.0, 3), (bt / 2, 4), (bt - E, 2), (bt + E, 2), (0.125, 3), (0.125 + bt / 2, 2)]
    calls = []
    t = 0.0
    for i in range(n):
        t += _w(rng, gaps)
        c = {'at': t}
        if base == 'c10':
            c['key'] = f'u{i}'                      # unique keys: every call enqueues
        else:
            mode = _w(rng, [('explicit', 7), ('default_unique', 1), ('plain', 2)]) if not profile.endswith('-hot') else 'explicit'
            if mode == 'explicit':
                c['key'] = f'k{rng.randrange(nk)}'
                if base in ('c11', 'c04') and rng.random() < 0.12:
                    c['key'] = ''               # legal, falsy
            elif mode == 'plain':
                c['plain'] = rng.randrange(nk)      # arg is a small int, key defaults to str(arg)
        if base == 'c11' and rng.random() < 0.3:
            c['repeat'] = rng.randint(1, 2)         # call again right after being answered, no suspension in between
        if base == 'c09' and rng.random() < 0.4:
            if rng.random() < 0.6:
                c['cancel_after'] = _w(rng, [(0.0, 3), (bt / 2, 2), (bt + E, 2), (bt + 0.125, 2), (bt + 0.375, 2), (2.0, 1)])
            else:
                c['timeout'] = _w(rng, [(0.0, 1), (bt / 2, 2), (bt + E, 2), (bt + 0.125, 2), (bt + 0.375, 2), (2.0, 1)])
        if hot and i >= 1 and rng.random() < 0.45:
            # issued a little after an earlier call was answered (whenever that turns out to be)
            c['after'] = rng.randrange(i)
            c['delay'] = _w(rng, [(0.0, 2), (bt / 2, 3), (0.0625, 2), (0.125 + E, 2), (0.125 + bt / 2, 3), (0.1875, 2)])
        calls.append(c)
    prog['calls'] = calls
    prog['driver'] = 'pre' if rng.random() < 0.4 else 'seq'
    # batch function behaviour
    durs = [(0.0, 4), (0.125, 3), (0.25, 2), (bt * 3, 1), (1.0, 1)]
    prog['batch_dur'] = [_w(rng, durs) for _ in range(4)]
    # work after the last yield (flush, commit, logging ...): the execution is still in progress then
    prog['tail_dur'] = [_w(rng, [(0.0, 5), (0.0625, 2), (0.25, 2), (1.0, 1)]) for _ in range(4)]
    # the batch function may be a plain callable returning an async iterable, failing at call time for some batches
    prog['call_time_raise'] = [rng.random() < 0.12 for _ in range(4)] if base in ('c04', 'c09') else [False] * 4
    prog['item_dur'] = [_w(rng, [(0.0, 5), (0.125, 3), (0.03125, 2)]) for _ in range(4)]
    if base == 'c10' and rng.random() < 0.25:
        prog['bf_form'] = 'eager'       # plain callable that starts working when called and returns an async iterator
    if base in ('c10', 'c11'):
        # C10: failing batch functions are not anomalies of the protocol: the limits must survive them
        behs = [('value', 7), ('exc', 2), ('omit', 1.5), ('raise', 1.5)] if base == 'c11' else [('value', 8), ('exc', 1), ('omit', 1), ('raise', 2)]
    else:
        behs = [('value', 10), ('none', 1), ('zero', 1), ('empty', 1), ('cls', 1), ('exc', 4), ('exc_sub', 2),
                ('omit', 3), ('raise', 3), ('twice', 1), ('unknown', 1), ('raise_cancelled', 0.8), ('raise_base', 0.4)]
        if not profile.endswith('-nostopiter'):
            behs.append(('stopiter', 0.6))
    if profile.endswith('-hot'):
        behs = [('value', 6), ('raise', 4), ('exc', 1), ('omit', 1)]
        prog['item_dur'] = [_w(rng, [(0.125, 4), (0.25, 2), (0.03125, 1)]) for _ in range(4)]
        prog['order'] = rng.choice(['fwd', 'rev'])
    prog['script'] = [[_w(rng, behs) for _ in range(3)] for _ in range(5)]
    if base in ('c04', 'c09') and rng.random() < 0.3:
        t2 = 0.0
        by = []
        for j in range(rng.randint(1, 3)):
            t2 += _w(rng, gaps)
            by.append({'at': t2, 'key': f'k{rng.randrange(nk)}'})
        prog['bystander'] = by
        if rng.random() < 0.4:
            prog['by_same_opts'] = True      # same options; in the options form: one decorator object, two functions
    if base == 'c10' and rng.random() < 0.3:
        prog['mutate'] = [{'at': calls[rng.randrange(len(calls))]['at'] + rng.choice([0.0, E, bt / 2]),
                           'max_batch_size': rng.randint(1, 5)}]
        if rng.random() < 0.3:
            prog['mutate'].append({'at': calls[rng.randrange(len(calls))]['at'] + rng.choice([0.0, E, bt / 2, bt]),
                                   'max_batch_size': rng.randint(1, 5)})
            prog['mutate'].sort(key=lambda m: m['at'])
        prog['form'] = 'class'
    return prog


# ------------------------------------------------------------------ world
class Batch:
    def __init__(self, b, items, t, step):
        self.b = b
        self.items = items
        self.start = t
        self.step = step
        self.end = None
        self.events = []        # ('yield', key, obj) in order
        self.raised = None
        self.finished = False
        self.eager = False
        self.iter_started = False
        self.end_step = None


class Call:
    def __init__(self, i, spec):
        self.i = i
        self.spec = spec
        self.at = spec['at']
        if 'plain' in spec:
            self.arg = spec['plain']
            self.key = str(self.arg)
            self.kw = None
        else:
            self.arg = ('a', i)
            self.kw = spec.get('key')
            self.key = self.kw if self.kw is not None else str(self.arg)
        self.task = None
        self.outcome = None
        self.t_call = None
        self.t_done = None
        self.cancel_requested = False
        self.cancel_t = None
        self.done_fut = None
        self.chained_after = None       # the Call whose answer this call immediately followed (same task)


class BatcherWorld:

    def __init__(self, prog, sch, aa):
        self.prog = prog
        self.sch = sch
        self.aa = aa
        self.batches = []
        self.calls = [Call(i, c) for i, c in enumerate(prog['calls'])]
        self.running = 0
        self.max_running = 0
        self.violations = []
        self.end = None
        self.occ = {}
        self.batcher = None
        self.call = None
        self.loop = None
        self.size_limits = [(0.0, prog['max_batch_size'])]
        self.fired = {}
        self.arrivals = []
        self.by_results = []
        self.by_batches = []
        self.by_done = []
        self.batcher2 = None

    def viol(self, prop, oracle, sig, detail, **features):
        self.violations.append({'property': prop, 'oracle': oracle, 'signature': sig, 'detail': detail,
                                'features': features, 'step': self.sch.step, 't': self.sch.clock})

    def count(self, k, n=1):
        self.fired[k] = self.fired.get(k, 0) + n

    # ------------------------------------------------- the batch function
    def behaviour(self, key):
        n = self.occ.get(key, 0)
        self.occ[key] = n + 1
        script = self.prog['script']
        row = script[hash_key(key) % len(script)]
        return row[n % len(row)]

    def bf_entry(self, items):
        """What the batcher is given: an ordinary callable that validates and returns the async iterable."""
        b = len(self.batches)
        if self.prog.get('call_time_raise', [False] * 4)[b % 4]:
            items = list(items)
            B = Batch(b, items, self.sch.clock, self.sch.step)
            B.end = self.sch.clock
            B.raised = BatchError(b, 'call-time')
            self.batches.append(B)
            self.count('bf.raise_at_call_time')
            self.sch.log('batch', b, [k for k, _ in items], 'call-time-raise')
            raise B.raised
        if self.prog.get('bf_form') == 'eager':
            # An ordinary callable that starts the work when called (fires the bulk request) and returns an async iterator
            # over the answers: the execution is in progress from the call on.  Concurrency is judged at the end of the run
            # over the executions whose iterator was actually started.
            items = list(items)
            B = Batch(b, items, self.sch.clock, self.sch.step)
            B.eager = True
            self.batches.append(B)
            self.sch.log('batch', b, [k for k, _ in items], 'eager')
            return self.bf(items, B)
        return self.bf(items)

    async def bf(self, items, B=None):
        sch = self.sch
        items = list(items)
        eager = B is not None
        if eager:
            b = B.b
            B.iter_started = True
        else:
            b = len(self.batches)
            B = Batch(b, items, sch.clock, sch.step)
            self.batches.append(B)
            sch.log('batch', b, [k for k, _ in items])
        self.running += 1
        self.max_running = max(self.max_running, self.running)
        mc = self.prog['max_concurrent_batches']
        if self.running > mc and not eager:
            self.viol('C10', 'batcher.concurrency', 'more executions in progress than max_concurrent_batches',
                      f'batch {b} started at t={sch.clock} as execution #{self.running} (limit {mc})')
        try:
            d = self.prog['batch_dur'][b % 4]
            if d:
                await asyncio.sleep(d)
            order = list(items)
            if self.prog['order'] == 'rev':
                order.reverse()
            elif self.prog['order'] == 'shuffle':
                random.Random(self.prog['perm_seed'] + b).shuffle(order)
            idur = self.prog['item_dur'][b % 4]
            for key, arg in order:
                beh = self.behaviour(key)
                if idur and beh in ('raise', 'raise_cancelled', 'raise_base'):
                    await asyncio.sleep(idur)
                if beh == 'raise':
                    B.raised = BatchError(b, key)
                    self.count('bf.raise')
                    raise B.raised
                if beh == 'raise_cancelled':
                    # the batch function awaits a helper that was cancelled: it fails with CancelledError although nobody
                    # cancelled the batch itself
                    self.count('bf.raise_cancellederror')
                    B.raised = asyncio.CancelledError(b, key)
                    raise B.raised
                if beh == 'raise_base':
                    self.count('bf.raise_baseexception')
                    B.raised = BatchBaseError(b, key)
                    raise B.raised
                if idur:
                    await asyncio.sleep(idur)
                if beh == 'omit':
                    self.count('bf.omit')
                    continue
                if beh == 'unknown':
                    self.count('bf.unknown_key')
                    B.events.append(('yield', 'zz-unknown', None))
                    yield 'zz-unknown', ('T', b, 'zz-unknown')
                    beh = 'value'
                obj = self.make_obj(beh, b, key, arg)
                B.events.append(('yield', key, obj))
                yield key, obj
                if beh == 'twice':
                    self.count('bf.twice')
                    obj2 = ('T2', b, key, arg)
                    B.events.append(('yield', key, obj2))
                    yield key, obj2
            B.finished = True
            tail = self.prog.get('tail_dur', [0.0] * 4)[b % 4]
            if tail:
                await asyncio.sleep(tail)
        except GeneratorExit:
            B.events.append(('closed',))
            raise
        finally:
            self.running -= 1
            B.end = sch.clock
            B.end_step = sch.step
            if S.CUR is sch:
                sch.log('batch-end', b)

    async def bf2(self, items):
        self.by_batches.append([self.sch.clock, [k for k, _ in items]])
        for key, arg in list(items):
            await asyncio.sleep(0.125)
            yield key, ('B2', key, arg)

    async def by_call(self, j, o):
        if o['at'] > self.loop.time():
            await asyncio.sleep(o['at'] - self.loop.time())
        try:
            r = await self.batcher2(('by', j), key=o['key'])
            self.by_results.append((j, o['key'], 'value', r))
            self.by_done.append([j, self.sch.clock])
        except BaseException as e:  # noqa
            if isinstance(e, GeneratorExit):
                raise
            self.by_results.append((j, o['key'], type(e).__name__, e))

    def make_obj(self, beh, b, key, arg):
        if beh in ('value', 'twice'):
            return ('T', b, key, arg)
        if beh == 'none':
            return None
        if beh == 'zero':
            return 0
        if beh == 'empty':
            return ''
        if beh == 'cls':
            return ValueError          # an exception *class* is an ordinary value
        if beh == 'exc':
            self.count('bf.yield_exc')
            return ItemError(b, key)
        if beh == 'exc_sub':
            self.count('bf.yield_exc')
            return ItemKeyError(b, key)
        if beh == 'stopiter':
            self.count('bf.yield_stopiteration')
            return StopIteration(b, key)
        raise ValueError(beh)

    # --------------------------------------------------------------- calls
    async def caller(self, C):
        sch = self.sch
        C.task = asyncio.current_task()
        C.t_call = sch.clock
        self.arrivals.append(C)
        sch.log('call', C.i, C.key)
        spec = C.spec
        if spec.get('cancel_after') is not None:
            self.loop.call_later(spec['cancel_after'], self.do_cancel, C)
        try:
            kw = {} if C.kw is None else {'key': C.kw}
            if spec.get('timeout') is not None:
                C.cancel_requested = True
                C.cancel_t = sch.clock + spec['timeout']
                v = await asyncio.wait_for(self.call(C.arg, **kw), spec['timeout'])
            else:
                v = await self.call(C.arg, **kw)
            C.outcome = ('value', v)
        except asyncio.CancelledError as e:
            C.outcome = ('cancelled', e)
        except GeneratorExit:
            raise
        except BaseException as e:  # noqa
            C.outcome = ('exc', e)
        finally:
            C.t_done = sch.clock
            if C.done_fut is not None and not C.done_fut.done():
                C.done_fut.set_result(None)
            if S.CUR is sch:
                sch.log('ret', C.i, C.outcome[0] if C.outcome else None)
        # chained repeats: the same task asks again at once, with no suspension in between
        prev = C
        for r in range(spec.get('repeat', 0)):
            D = Call(1000 * (r + 1) + C.i, dict(spec, repeat=0))
            D.arg = ('a', D.i) if 'plain' not in spec else C.arg
            D.chained_after = prev
            D.task = C.task
            D.t_call = sch.clock
            self.calls.append(D)
            self.arrivals.append(D)
            sch.log('call', D.i, D.key)
            try:
                D.outcome = ('value', await self.call(D.arg, **kw))
            except asyncio.CancelledError as e:
                D.outcome = ('cancelled', e)
            except GeneratorExit:
                raise
            except BaseException as e:  # noqa
                D.outcome = ('exc', e)
            D.t_done = sch.clock
            sch.log('ret', D.i, D.outcome[0])
            prev = D

    async def caller_after(self, C, D):
        while D.outcome is None:
            if D.done_fut is None:
                D.done_fut = self.loop.create_future()
            await D.done_fut
        if C.spec.get('delay'):
            await asyncio.sleep(C.spec['delay'])
        await self.caller(C)

    def do_cancel(self, C):
        if C.task.done():
            self.count('cancel.noop')
            return
        C.cancel_requested = True
        C.cancel_t = self.sch.clock
        self.count('cancel.fired')
        self.sch.log('cancel', C.i)
        C.task.cancel()

    async def amain(self):
        p = self.prog
        aa = self.aa
        loop = self.loop = asyncio.get_running_loop()
        opts = dict(max_batch_size=p['max_batch_size'], max_concurrent_batches=p['max_concurrent_batches'],
                    batch_timeout=p['batch_timeout'], retention_timeout=p['retention_timeout'])
        if p['form'] == 'class':
            self.batcher = aa.AsyncBackgroundBatcher(self.bf_entry, **opts)
            self.call = self.batcher
        elif p['form'] == 'func':
            self.call = aa.async_background_batcher(self.bf_entry, **opts)
        else:
            deco = aa.async_background_batcher(**opts)
            self.call = deco(self.bf_entry)
        for m in p.get('mutate', ()):
            loop.call_at(m['at'], self.mutate, m)
        by_tasks = []
        if p.get('bystander'):
            # another batcher object (same class, own batch function) that happens to use the same key strings
            if p.get('by_same_opts'):
                # same option values; in the options form the *same decorator object* wraps this second function
                self.batcher2 = {'class': lambda: aa.AsyncBackgroundBatcher(self.bf2, **opts),
                                 'func': lambda: aa.async_background_batcher(self.bf2, **opts),
                                 'deco': lambda: deco(self.bf2)}[p['form']]()
            else:
                self.batcher2 = aa.AsyncBackgroundBatcher(self.bf2, max_batch_size=3, batch_timeout=p['batch_timeout'],
                                                          retention_timeout=p['retention_timeout'])
            for j, o in enumerate(p['bystander']):
                by_tasks.append(loop.create_task(self.by_call(j, o)))
        tasks = []
        base_calls = list(self.calls)
        if p.get('driver') == 'pre':
            # Every arrival is a timer registered up front, i.e. *before* any timer the batcher arms later: at an exact tie
            # between an arrival and a batcher time-out the arrival is then processed first (the sequential driver below gives
            # the opposite order).  Both orders are legal; limits must hold under either.
            started = loop.create_future()
            left = [sum(1 for C in base_calls if C.spec.get('after') is None)]

            def start(group):
                # one timer per instant: simultaneous arrivals happen in program order (timers with equal deadlines have
                # no defined order among themselves, and which order they get depends on unrelated timers)
                for C in group:
                    tasks.append(loop.create_task(self.caller(C)))
                    left[0] -= 1
                if left[0] == 0 and not started.done():
                    started.set_result(None)
            groups = {}
            for C in base_calls:
                if C.spec.get('after') is not None:
                    tasks.append(loop.create_task(self.caller_after(C, base_calls[C.spec['after']])))
                else:
                    groups.setdefault(C.at, []).append(C)
            for at in sorted(groups):
                loop.call_at(at, start, groups[at])
            if left[0]:
                await started
            base_calls = []
        for C in base_calls:
            if C.spec.get('after') is not None:
                tasks.append(loop.create_task(self.caller_after(C, base_calls[C.spec['after']])))
                continue
            if C.at > loop.time():
                await asyncio.sleep(C.at - loop.time())
            tasks.append(loop.create_task(self.caller(C)))
        await asyncio.gather(*tasks, return_exceptions=True)
        if by_tasks:
            await asyncio.gather(*by_tasks, return_exceptions=True)
        # let retention timers and background work settle, then one more round of fresh calls is
        # part of the program itself (later 'calls'); nothing else to do here

    def mutate(self, m):
        self.batcher.max_batch_size = m['max_batch_size']
        self.size_limits.append((self.sch.clock, m['max_batch_size']))
        self.sch.log('mutate', m['max_batch_size'])

    def main(self):
        loop = SimLoop()
        asyncio.set_event_loop(loop)
        try:
            loop.run_until_complete(self.amain())
        finally:
            self.exc_contexts = list(loop.exc_contexts)
            asyncio.set_event_loop(None)

    # -------------------------------------------------------------- oracles
    def expected_from_batch(self, B, key):
        """('value', obj) | ('raise', obj) | ('some_exc',) | None if B never carried key."""
        if key not in [k for k, _ in B.items]:
            return None
        answered = set()
        for ev in B.events:
            if ev[0] != 'yield':
                continue
            k, obj = ev[1], ev[2]
            if k == 'zz-unknown' or k in answered:
                # anomaly: everything unanswered so far gets *some* exception
                return ('some_exc',)
            answered.add(k)
            if k == key:
                if isinstance(obj, StopIteration):
                    return ('some_exc',)        # a Future cannot carry StopIteration; any error will do
                if isinstance(obj, Exception):
                    return ('raise', obj)
                return ('value', obj)
        if B.raised is not None:
            return ('raise', B.raised)
        return ('some_exc',)

    def matches(self, outcome, exp):
        if exp[0] == 'value':
            return outcome[0] == 'value' and outcome[1] is exp[1]
        if exp[0] == 'raise':
            return outcome[0] == 'exc' and outcome[1] is exp[1]
        return outcome[0] == 'exc'

    def serving_batches(self, C):
        """Candidate batches that may have served call C, strongest knowledge first."""
        if 'plain' not in C.spec:
            # unique arg: the origin's item is identifiable
            own = [B for B in self.batches if any(a == C.arg and k == C.key for k, a in B.items)]
            if own:
                return own, 'origin'
            # joiner: served by the latest origin of its key called before it (program order)
            prev = [D for D in self.arrivals[:self.arrivals.index(C)] if D.key == C.key and 'plain' not in D.spec]
            for D in reversed(prev):
                own = [B for B in self.batches if any(a == D.arg and k == D.key for k, a in B.items)]
                if own:
                    return own, 'joiner'
            return [], 'none'
        return [B for B in self.batches if any(k == C.key for k, _ in B.items)], 'weak'

    def judge(self, props):
        sch = self.sch
        p = self.prog
        end = self.end
        cancel_world = any(C.cancel_requested for C in self.calls)
        # ---- completion
        pending = [C for C in self.calls if C.outcome is None]
        if end != 'normal' or pending:
            victims = [C for C in pending if not C.cancel_requested]
            prop = 'C09' if cancel_world else 'C04'
            if end == 'quiescent' or (pending and end == 'normal'):
                det = (f'run ended {end} at t={sch.clock}: callers {[C.i for C in pending]} never completed '
                       f'(keys {[C.key for C in pending]})')
                feats = self.hang_features(pending)
                self.viol(prop, 'batcher.hang', 'a caller is never answered', det, **feats)
            elif end == 'livelock':
                self.viol(prop, 'batcher.livelock', 'the batcher spins without virtual time advancing',
                          f'step cap hit at step {sch.step}, t={sch.clock}')
            else:
                self.viol('HARNESS', 'harness.' + str(end), 'unexpected run end', f'{end} step {sch.step}')
        # ---- per-caller outcome (C04 / C09)
        for C in self.calls:
            if C.outcome is None:
                continue
            if C.cancel_requested:
                continue            # its own outcome is its own business (C09 judges the others)
            prop = 'C09' if cancel_world else 'C04'
            o = C.outcome
            if o[0] == 'cancelled':
                cands, how = self.serving_batches(C)
                if any(isinstance(B.raised, asyncio.CancelledError) and self.expected_from_batch(B, C.key) == ('raise', B.raised)
                       for B in cands):
                    continue        # the batch function itself failed with CancelledError before answering this key
                self.viol(prop, 'batcher.foreign_cancel', 'a caller nobody cancelled got CancelledError',
                          f'call {C.i} key {C.key} at t={C.t_done}', **self.c09_features(C))
                continue
            if o[0] == 'exc' and type(o[1]).__name__ == 'InvalidStateError':
                self.viol(prop, 'batcher.invalid_state', 'caller received InvalidStateError from the batcher\'s bookkeeping',
                          f'call {C.i} key {C.key} at t={C.t_done}: {o[1]!r}', **self.c09_features(C))
                continue
            cands, how = self.serving_batches(C)
            if not cands:
                self.viol(prop, 'batcher.unserved', 'caller completed although no batch ever carried its key',
                          f'call {C.i} key {C.key} outcome {o[0]} {o[1]!r}')
                continue
            exps = [self.expected_from_batch(B, C.key) for B in cands]
            exps = [e for e in exps if e is not None]
            if not any(self.matches(o, e) for e in exps):
                # foreign key?
                obj = o[1]
                foreign = (isinstance(obj, tuple) and len(obj) >= 3 and obj[0] in ('T', 'T2') and obj[2] != C.key) or \
                          (isinstance(obj, (ItemError, ItemKeyError)) and obj.args[1] != C.key)
                oracle = 'batcher.foreign_outcome' if foreign else 'batcher.wrong_outcome'
                self.viol(prop, oracle, 'caller outcome differs from what the batch function produced for its key',
                          f'call {C.i} key {C.key} ({how}) got {o[0]} {short(o[1])}; batch(es) {[B.b for B in cands]} '
                          f'produced {[short(e) for e in exps]}', **self.c09_features(C))
        # ---- the second batcher object is independent of the first
        cancel_world = any(C.cancel_requested for C in self.calls)
        for j, key, kind, r in self.by_results:
            if not (kind == 'value' and isinstance(r, tuple) and r[0] == 'B2' and r[1] == key):
                self.viol('C09' if cancel_world else 'C04', 'batcher.crosstalk',
                          'a call to a second, independent batcher object was disturbed',
                          f'bystander call {j} key {key} on the other batcher got {kind} {short(r)}')
                break
        if self.prog.get('bystander') and len(self.by_results) < len(self.prog['bystander']) and self.end == 'normal':
            self.viol('C09' if cancel_world else 'C04', 'batcher.crosstalk', 'a call to a second batcher never completed',
                      f'{len(self.by_results)} of {len(self.prog["bystander"])} bystander calls completed')
        # ---- background task death
        for ctx in getattr(self, 'exc_contexts', ()):
            msg = ctx.get('message', '')
            if 'never retrieved' in msg or 'exception' in ctx:
                exc = ctx.get('exception')
                if exc is not None and any(B.raised is exc for B in self.batches) and not isinstance(exc, Exception):
                    continue        # a non-Exception failure of the batch function itself may end its batch task
                prop = 'C09' if cancel_world else 'C04'
                self.viol(prop, 'batcher.background_death', 'a background task of the batcher died',
                          f'{msg}: {exc!r}', exc=type(exc).__name__ if exc else None)
                break
        # ---- C10
        if 'C10' in props:
            self.judge_c10()
        if 'C11' in props:
            self.judge_c11()
        # ---- always: no batch carries a key twice, no empty batch, size limit
        for B in self.batches:
            keys = [k for k, _ in B.items]
            if len(keys) != len(set(keys)):
                # without cancellations this is C11's clause; with them it is how cancelling one caller harms the others
                self.viol('C09' if cancel_world else 'C11', 'batcher.key_twice_in_batch', 'a batch carries a key twice',
                          f'batch {B.b}: {keys}', cancel_world=cancel_world)
                if not cancel_world:
                    self.viol('C04', 'batcher.key_twice_in_batch', 'a batch carries a key twice (one of its callers cannot be answered)',
                              f'batch {B.b}: {keys}')
            if not keys:
                self.viol('C10', 'batcher.empty_batch', 'batch function called with an empty batch', f'batch {B.b}')
            lim = max(n for t, n in self.size_limits if t <= B.start) if len(self.size_limits) == 1 else \
                max(n for t, n in self.size_limits)
            if len(keys) > lim:
                self.viol('C10', 'batcher.oversize', 'batch larger than max_batch_size',
                          f'batch {B.b} has {len(keys)} items, limit {lim}')

    def hang_features(self, pending):
        stop = any(isinstance(ev[2], StopIteration) for B in self.batches for ev in B.events if ev[0] == 'yield' and len(ev) > 2)
        return {'stopiteration_yielded': stop, 'cancel_world': any(C.cancel_requested for C in self.calls)}

    def c09_features(self, C):
        return {}

    # ----------------------------------------------------------------- C10
    def judge_c10(self):
        p = self.prog
        bt = p['batch_timeout']
        mc = p['max_concurrent_batches']
        eb = [B for B in self.batches if B.eager and B.iter_started]
        for B in eb:
            n = 1 + sum(1 for X in eb if X is not B and X.step < B.step and (X.end_step is None or X.end_step > B.step))
            self.max_running = max(self.max_running, n)
            if n > mc:
                self.viol('C10', 'batcher.concurrency', 'more executions in progress than max_concurrent_batches',
                          f'batch {B.b} (eager batch function) was called at t={B.start} as execution #{n} (limit {mc})')
                break
        # FIFO: concatenation of batches in start order == arrival order
        flat = [k for B in self.batches for k, _ in B.items]
        arr = [C.key for C in self.arrivals]
        if flat != arr[:len(flat)] or len(flat) != len(arr):
            self.viol('C10', 'batcher.fifo', 'items do not appear in arrival order',
                      f'batches {[[k for k, _ in B.items] for B in self.batches]} vs arrivals {arr}')
            return
        tarr = {C.key: C.t_call for C in self.arrivals}
        mutated = len(self.size_limits) > 1

        def limits_at(t, t2=None):
            # the limit(s) the collector can have read between instants t and t2 (default: at t): the one in force just before
            # t (a mutation at exactly t is a tie with the arrival; both orders are legal) and every one in force up to t2
            t2 = t if t2 is None else t2
            before = [n for tm, n in self.size_limits if tm < t]
            out = {before[-1] if before else self.size_limits[0][1]}
            out.update(n for tm, n in self.size_limits if t <= tm <= t2)
            return out
        if mutated:
            # The limit is public and mutable: the collector consults it as items join.  Item j (j >= 2) joined a batch that
            # held j-1 items from the arrival of item j-1 on, so j-1 must have been below a limit in force at some instant
            # between that arrival and its own (whether the implementation looks after adding j-1 or before adding j).
            for B in self.batches:
                ks = [k for k, _ in B.items]
                for j in range(2, len(ks) + 1):
                    lim = max(limits_at(tarr[ks[j - 2]], tarr[ks[j - 1]]))
                    if j - 1 >= lim:
                        self.viol('C10', 'batcher.oversize', 'batch grew past the max_batch_size in force when the item joined',
                                  f'batch {B.b} {ks}: item #{j} joined although the batch already held {j - 1} item(s) when '
                                  f'{ks[j - 2]} arrived at t={tarr[ks[j - 2]]} and the limit from then until its own arrival was at most {lim} '
                                  f'(limits over time {self.size_limits})', mutated=True)
                        break
        # sharing: consecutive arrivals < bt apart share a batch unless it is full
        where = {k: B for B in self.batches for k, _ in B.items}
        shrinks = [tm for (_, n0), (tm, n1) in zip(self.size_limits, self.size_limits[1:]) if n1 < n0]
        arr_no = {C.key: n for n, C in enumerate(self.arrivals)}
        for a, b in zip(self.arrivals, self.arrivals[1:]):
            gap = b.t_call - a.t_call
            if gap < bt and where[a.key] is not where[b.key]:
                B = where[a.key]
                if any(X.t_call <= tm <= where[X.key].start for tm in shrinks for X in self.arrivals[:arr_no[a.key] + 1]
                       if where[X.key].start >= a.t_call):
                    # the limit shrank while calls up to a were still collected, not handed over: the open group may then
                    # exceed the new limit, and how an over-full group is cut up is not something the statement fixes
                    continue
                # (mutated limit: an implementation may also apply the limit in force when it hands the batch over)
                lim = min(limits_at(a.t_call, max(b.t_call, B.start))) if mutated else p['max_batch_size']
                if len(B.items) < lim:
                    self.viol('C10', 'batcher.split_burst', 'calls less than batch_timeout apart did not share a batch',
                              f'{a.key}@{a.t_call} and {b.key}@{b.t_call} (gap {gap} < {bt}); batch {B.b} has '
                              f'{len(B.items)} < {lim} items')
        # dispatch deadline
        INF = float('inf')
        ends = sorted(B.end for B in self.batches if B.end is not None)
        order = {C.key: n for n, C in enumerate(self.arrivals)}
        for B in self.batches:
            last = max(tarr[k] for k, _ in B.items)
            if mutated:
                # a later arrival may have joined the same open group (restarting its clock) before a change of the limit
                # made the implementation split the group at hand-over: count every arrival from B's first item on that
                # came before B was handed over
                first = min(order[k] for k, _ in B.items)
                last = max([last] + [C.t_call for C in self.arrivals[first:] if C.t_call < B.start])
            deadline = last + bt
            if B.start <= deadline:
                if len(B.items) < (min(n for _, n in self.size_limits)) and B.start < deadline and not mutated:
                    # dispatched early although not full: allowed only if nothing says otherwise -> C10 says "no later than"
                    pass
                continue
            # later than the deadline: must be explained by all slots being busy until B.start
            # an execution whose end was never observed is still in progress when the run stops
            busy_until = [(X.end if X.end is not None else INF) for X in self.batches
                          if X.b < B.b and X.start <= deadline and (X.end is None or X.end > deadline)]
            running_at_deadline = len(busy_until)
            if running_at_deadline >= mc:
                free_at = sorted(busy_until)[running_at_deadline - mc]
                if B.start <= free_at:
                    continue
                # earlier batches queued for a slot go first (FIFO): allow start == end of some earlier batch
                if any(B.start == e for e in ends):
                    continue
            self.viol('C10', 'batcher.late_dispatch', 'queued call handed over later than batch_timeout after the last arrival',
                      f'batch {B.b} {[k for k, _ in B.items]} started t={B.start}, last arrival {last}, deadline {deadline}, '
                      f'{running_at_deadline} execution(s) running at the deadline (limit {mc})')

    # ----------------------------------------------------------------- C11
    def judge_c11(self):
        p = self.prog
        R = p['retention_timeout']
        per_key = {}
        for C in self.arrivals:
            per_key.setdefault(C.key, []).append(C)
        for key, cs in per_key.items():
            items = [(B, a) for B in self.batches for k, a in B.items if k == key]
            origin = None
            n_origins = 0
            n_ambiguous = 0
            for C in cs:
                if C.outcome is None:
                    continue
                if origin is None:
                    status = 'new'
                else:
                    done = origin.t_done
                    if done is None or C.t_call < done:
                        status = 'join'                 # original request still pending
                    elif R > 0:
                        if C.t_call < done + R:
                            status = 'join'
                        elif C.t_call == done + R:
                            status = 'tie'
                        else:
                            status = 'new'
                    elif C.t_call == done and _chain_reaches(C, origin):
                        status = 'new'      # issued by the answered caller itself, after its answer: not a tie
                    else:
                        status = 'tie' if C.t_call == done else 'new'
                if status == 'tie':
                    n_ambiguous += 1
                    # decide from what happened, judge nothing
                    status = 'join' if C.outcome[1] is origin.outcome[1] else 'new'
                    if status == 'new':
                        origin = C
                        n_origins += 1
                    continue
                if status == 'new':
                    if origin is not None and C.outcome[1] is origin.outcome[1] and not _is_small(C.outcome[1]):
                        self.viol('C11', 'batcher.stale_result', 'a call after the retention window received the old result',
                                  f'call {C.i} key {key} at t={C.t_call} got the outcome of call {origin.i} '
                                  f'(completed t={origin.t_done}, retention {R})', retention_positive=R > 0)
                    origin = C
                    n_origins += 1
                else:
                    if C.outcome[1] is not origin.outcome[1]:
                        self.viol('C11', 'batcher.recomputed_in_window', 'a call inside the retention window did not reuse the original outcome',
                                  f'call {C.i} key {key} at t={C.t_call} got {short(C.outcome[1])}, original call {origin.i} '
                                  f'(completed t={origin.t_done}, retention {R}) got {short(origin.outcome[1])}',
                                  retention_positive=R > 0)
            if n_ambiguous == 0 and len(items) != n_origins and all(C.outcome is not None for C in cs):
                self.viol('C11', 'batcher.work_count', 'number of batch items for a key differs from the number of retention windows',
                          f'key {key}: {len(items)} item(s) in batches {[B.b for B, _ in items]}, expected {n_origins}',
                          retention_positive=R > 0)


def _chain_reaches(C, origin):
    x = C.chained_after
    while x is not None:
        if x is origin:
            return True
        x = x.chained_after
    return False


def _is_small(o):
    return o is None or isinstance(o, (int, str, type))


def short(o):
    r = repr(o)
    return r if len(r) < 80 else r[:77] + '...'


def hash_key(key):
    # deterministic across processes (str hash is salted)
    return sum(ord(c) for c in key)


def execute(prog, sspec=None, props=('C04',)):
    aa, _ = env.aiuti()
    # line events of aiuti/asyncio.py count as steps: a busy loop that never awaits hits the step cap
    sch = S.Sched(seed=0, strategy=('sticky', 0.0), step_cap=prog.get('step_cap', 60_000),
                  trace_files=(aa.__file__,))
    sch.log('prog', json.dumps(prog, sort_keys=True))
    w = BatcherWorld(prog, sch, aa)
    install_policy()
    try:
        try:
            sch.run(w.main)
            w.end = 'normal'
        except S.Quiescent:
            w.end = 'quiescent'
        except S.StepCap as e:
            w.end = 'livelock' if e.clock_stuck else 'stepcap'
    finally:
        restore_policy()
    w.judge(set(props))
    for L in sch.loops:
        if not L.is_closed() and not L.is_running():
            try:
                L.close()
            except Exception:
                pass
    multi = sum(1 for B in w.batches if len(B.items) > 1)
    return {
        'end': w.end, 'violations': w.violations, 'digest': sch.digest(), 'steps': sch.step,
        'vtime': sch.clock, 'switches': [], 'nswitch': 0, 'edges': set(), 'faults': dict(w.fired),
        'probes': {'batcher.multi_item_batch': multi, 'batcher.batches': len(w.batches),
                   'batcher.concurrent_batches': 1 if w.max_running > 1 else 0,
                   'batcher.full_batch': sum(1 for B in w.batches if len(B.items) >= prog['max_batch_size'])},
        'leaked': sch.leaked,
        'nontrivial': len(w.calls) >= 2 and len(w.batches) >= 1,
        'outcomes': [(C.i, C.key, C.outcome[0] if C.outcome else None) for C in w.calls],
        'trace': {'batches': [[B.b, [k for k, _ in B.items], B.start, B.end, len(B.events)] for B in w.batches],
                  'calls': [[C.i, C.outcome[0] if C.outcome else None, short(C.outcome[1]) if C.outcome else None, C.t_done]
                            for C in w.calls], 'end': w.end,
                  'bystander': [w.by_batches, [[j, k, kind, short(r)] for j, k, kind, r in w.by_results], w.by_done]},
    }
