"""C03 — see DESIGN.md 3.3."""
from . import _buffer
from ._buffer import REAL, STUB, ASSUMPTIONS, shrink  # noqa
from ..worlds import bufferworld as bw

PROPERTY = 'C03'
LEVEL = 'exploration'
RULE = "each run = one seeded timed program of <=8 submissions (plain / awaitable / list / one-shot iterator through the real to_async_iter in a SimPool thread / async iterable; producer step delays on a grid straddling the timeout; producer failure at any position) and wait() calls, issued by the loop's own thread and by 0-2 foreign sim threads (line-level pre-emption incl. between the two lines of _put), against a scripted function (any subset of the first 6 invocations raises; durations 0, <T, >T), ending with a final wait(). Oracles over the recorded invocations: only produced elements are ever passed; at the end every produced element is in the args of a successful call; after a failed call every later call up to the next success is a superset; own-thread elements are in exactly one successful call. non-trivial = >=2 submissions or >=1 cross-thread switch in traced code; distinct by run digest."
LEVEL_TEXT = 'Seeded search over timed programs x function-failure sequences x line-level interleavings of foreign submitters and producer threads against the real BufferAsyncCalls in virtual time; conservation is checked over the full recorded history with unique elements, so every delivered element is attributable to one submission.'
LEVEL_NOTE = 'Trusted: CPython 3.12.1 asyncio; SimPool as ThreadPoolExecutor; harness function/producers as observation points. A run in which the final wait() never returns is reported under C07, not here.'
TECHNIQUE = 'deterministic simulation: seeded thread scheduler + virtual-time loop, function/producer failure injection, conservation oracle over the recorded history'
CHUNK = 200
DESIGN_REF = '3.3'
PROFILES = [('c03-nofail-solo', 3000), ('c03-solo', 5000), ('c03', 12000)]


def batches(tier):
    k = 1 if tier == 'quick' else 40
    return [{'name': n, 'n': c * k, 'profile': n} for n, c in PROFILES]


def make_case(batch, seed):
    return _buffer.make_case(batch['profile'], seed, batch.get('index'))


def run_case(case):
    return bw.execute(case['prog'], case.get('sched') or {}, props=('C03',))
