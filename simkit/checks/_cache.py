"""Shared pieces of the cache-family checks (C01, C05, C06, C14)."""

import json
import random

from .. import sched as S
from ..worlds import cacheworld as cw

REAL = ['aiuti.asyncio.threadsafe_async_cache (unmodified source, line-traced)',
        'asyncio BaseEventLoop scheduling core, Task/Future (C-accelerated), Event, wait_for, shield, '
        'run_coroutine_threadsafe, wrap_future, Runner (CPython 3.12.1)',
        'threading.Lock object state (inside SimLock)', 'real OS threads (one runs at a time)']
STUB = ['selector / self-pipe (SimLoop fake selector)', 'loop clock (virtual)',
        'blocking part of Lock.acquire (try, else park in the scheduler)',
        'which thread runs next (seeded scheduler at line events of aiuti/asyncio.py)']
ASSUMPTIONS = [
    'CPython 3.12.1 only; stdlib/C code between two line events of aiuti code is atomic',
    'pre-emption granularity is one source line of aiuti/asyncio.py (and of the pure-Python cache mapping)',
    'sampling, not enumeration: a clean batch is evidence, not proof',
    'loops are not restarted for new work after stopping with a call pending (only Runner.close re-runs them)',
]


def make_case(profile, seed):
    rng = random.Random(seed)
    prog = cw.gen_program(rng, profile)
    strat = S.pick_strategy(rng)
    return {'prog': prog, 'sched': {'seed': seed, 'strategy': list(strat)}}


def run_case(case, world_cls=cw.CacheWorld):
    r = cw.execute(case['prog'], case['sched'], world_cls=world_cls)
    r['switches'] = [list(x) for x in r['switches']]
    return r


def _clone(c):
    return json.loads(json.dumps(c))


def shrink(case):
    """Simpler candidate programs, most aggressive first."""
    prog = case['prog']
    nt = len(prog['threads'])
    # drop a whole thread (fault references are re-indexed)
    if nt > 2:
        for ti in range(nt):
            c = _clone(case)
            del c['prog']['threads'][ti]
            fs = []
            for f in c['prog']['faults']:
                if 'thread' in f:
                    if f['thread'] == ti:
                        continue
                    if f['thread'] > ti:
                        f['thread'] -= 1
                fs.append(f)
            c['prog']['faults'] = fs
            yield c
    # drop a caller
    for ti, t in enumerate(prog['threads']):
        if len(t['callers']) > 1:
            for ci in range(len(t['callers'])):
                c = _clone(case)
                del c['prog']['threads'][ti]['callers'][ci]
                c['prog']['faults'] = [f for f in c['prog']['faults']
                                       if not (f.get('thread') == ti and f.get('caller', -1) >= ci)]
                yield c
    # drop a fault
    for fi in range(len(prog['faults'])):
        c = _clone(case)
        del c['prog']['faults'][fi]
        yield c
    for ti, t in enumerate(prog['threads']):
        if 'round2' in t:
            c = _clone(case)
            del c['prog']['threads'][ti]['round2']
            c['prog']['faults'] = [f for f in c['prog']['faults'] if not (f.get('thread') == ti and f.get('caller', -1) >= len(t['callers']))]
            yield c
    # simplify thread attributes
    for ti, t in enumerate(prog['threads']):
        if t['arrive']:
            c = _clone(case)
            c['prog']['threads'][ti]['arrive'] = 0.0
            yield c
        if t['life'] == 'early':
            c = _clone(case)
            c['prog']['threads'][ti]['life'] = 'await_all'
            c['prog']['threads'][ti].pop('early_after', None)
            yield c
        if 'stop_at' in t:
            c = _clone(case)
            del c['prog']['threads'][ti]['stop_at']
            yield c
        for ci, cl in enumerate(t['callers']):
            for k in ('cancel_at', 'timeout'):
                if k in cl:
                    c = _clone(case)
                    del c['prog']['threads'][ti]['callers'][ci][k]
                    yield c
            if cl['at']:
                c = _clone(case)
                c['prog']['threads'][ti]['callers'][ci]['at'] = 0.0
                yield c
            if cl['key']:
                c = _clone(case)
                c['prog']['threads'][ti]['callers'][ci]['key'] = 0
                yield c
    # simplify the invocation script
    invs = prog['invs']
    if len(invs) > 1:
        c = _clone(case)
        c['prog']['invs'] = invs[:max(1, len(invs) // 2)]
        yield c
    for ii, iv in enumerate(invs):
        if iv['out'] != 'value':
            c = _clone(case)
            c['prog']['invs'][ii]['out'] = 'value'
            yield c
        if iv['dur'] not in (None, cw.Q):
            c = _clone(case)
            c['prog']['invs'][ii]['dur'] = cw.Q
            yield c
    if prog['cache'] not in ('dict',) and prog['profile'].split('-')[0] != 'c14':
        c = _clone(case)
        c['prog']['cache'] = 'dict'
        yield c
